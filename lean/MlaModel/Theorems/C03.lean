/-
  C03 (encryption layer) — any alteration of the sealed stream is detected on read.

  Setting: the SAME reader as in C11 (`EncR.readFull` / `EncR.seekFull`, MlaModel/Encrypt.lean), but
  the inner stream delivers an ARBITRARY byte string `e` instead of `sealS P C p`.

  Hypotheses (all explicit):
    * `C11.EncPrims.Laws P C`   tags have `tagLen` bytes;
    * `Unforged P C p e`        integrity: a chunk slot of `e` that authenticates under its own index
                                holds the genuine sealed chunk of that index (what INT-CTXT gives
                                against an adversary who saw `sealS P C p`).  NOTE: the "naive" form
                                "whatever `openChunk` accepts is genuine, for all inputs" is
                                inconsistent with `Laws` (`naive_intctxt_inconsistent` below), so the
                                hypothesis has to be about the adversary's output `e`;
    * `IsFullCursor InvI absI e` the inner stream is cursor-like over `e` and accepts seeks past the
                                end, as `std::io::Cursor`/files do (`IsCursor` of C11 only specifies
                                seeks into `[0, |e|]`, and the reader derives inner offsets from the
                                requested position, which `e` — possibly shortened — need not contain);
    * `|e| ≤ 2^32 · (chunk + tagLen)`.

  Statements, for every state reachable from `new` + `initialize` by ANY sequence of `read`/`seek`
  calls whatever they answered (`Reach`):
    * `read_sound`  : `read` answering `.ok out` ⇒ `out` is the genuine plaintext at the position
                      before the call, the position advances by `|out|`;
    * `seek_sound`  : `seek` answering `.ok q` ⇒ the new position is `q`, and `q` is the requested one;
    * `sticky`      : after a `read` error every `read` errs until a repositioning seek succeeds;
    * `endpos`      : the end position is a function of `|e|` only (not authenticated — D14), and
      `truncation_accepted`: a genuine stream cut after `k ≥ 1` whole chunks is read as a perfectly
      valid stream with plaintext `p.take (k * chunk)`.
-/
import MlaModel.Proofs.EncryptTamper
import MlaModel.Theorems.C11Encrypt
namespace MlaModel.C03
open MlaModel

/-- position of the reader: `stream_position()` -/
def posOf {ι : Type} (P : Params) (r : EncR ι) : Nat := r.chunkNo * P.chunk + r.cpos

/-- a call of the client -/
inductive Op where
  | read (n : Nat)
  | seek (w : SeekFrom)

section
variable {ι : Type} [Stream ι] (P : Params) (C : EncPrims)

/-- the state after a call, whatever it answered -/
def step (r : EncR ι) : Op → EncR ι
  | .read n => (EncR.readFull P C r n).1
  | .seek w => (EncR.seekFull P C r w).1

def run (r : EncR ι) (ops : List Op) : EncR ι := ops.foldl (step P C) r

/-- states reachable from `new` + `initialize` over the inner stream `inner` -/
inductive Reach (inner : ι) : EncR ι → Prop where
  | init : Reach inner (EncR.init P C inner).1
  | step {r : EncR ι} (op : Op) : Reach inner r → Reach inner (step P C r op)

/-- a call that does not reposition the reader successfully: a `read`, the position query
    `seek(Current(0))`, or a seek that answers an error -/
def quiet (r : EncR ι) : Op → Prop
  | .read _ => True
  | .seek w => w = .current 0 ∨ ∃ er, (EncR.seekFull P C r w).2 = .error er

def Quiet : EncR ι → List Op → Prop
  | _, [] => True
  | r, op :: ops => quiet P C r op ∧ Quiet (step P C r op) ops

/-- a failed state answers every `read` with the tag error and does not move -/
theorem read_failed (r : EncR ι) (n : Nat) (h : r.failed = true) :
    EncR.readFull P C r n = (r, .error .wrongTag) := by
  simp [EncR.readFull, h]

variable (hC : C11.EncPrims.Laws P C) {InvI : ι → Prop} {absI : ι → Nat} (p e : Bytes)
  (hF : IsFullCursor InvI absI e) (hU : Unforged P C p e)
  (hsmall : e.length ≤ U32 * (P.chunk + P.tagLen))
include hC hF hU hsmall

theorem inv_init (inner : ι) (hin : InvI inner) : TInv P p e InvI absI (EncR.init P C inner).1 := by
  have hc := P.hchunk
  refine (EncR.seekStart_tamper P C hC.tagLen p e hF hU hsmall ⟨inner, [], 0, 0, false⟩ 0
    ⟨hin, Nat.zero_le _, .inl rfl, ?_, ?_⟩).1
  · intro h0; simp at h0; omega
  · intro _ h0; simp at h0; omega

theorem inv_step (r : EncR ι) (op : Op) (h : TInv P p e InvI absI r) :
    TInv P p e InvI absI (step P C r op) := by
  cases op with
  | read n => exact (EncR.readFull_tamper P C hC.tagLen p e hF hU r n h).1
  | seek w => exact (EncR.seekFull_tamper P C hC.tagLen p e hF hU hsmall r w h).1

/-- every reachable state satisfies the invariant `TInv` -/
theorem reach_inv (inner : ι) (hin : InvI inner) (r : EncR ι) (hr : Reach P C inner r) :
    TInv P p e InvI absI r := by
  induction hr with
  | init => exact inv_init P C hC p e hF hU hsmall inner hin
  | step op _ ih => exact inv_step P C hC p e hF hU hsmall _ op ih

/-- **C03, reads.**  Whatever bytes `e` the inner stream holds and whatever calls were made before:
    if `read` answers `.ok out` then `out` is the genuine plaintext at the reader's position, the
    position advances by `|out|`, and neither the state before nor after is a failed one. -/
theorem read_sound (inner : ι) (hin : InvI inner) (r : EncR ι) (hr : Reach P C inner r) (n : Nat)
    (r' : EncR ι) (out : Bytes) (h : EncR.readFull P C r n = (r', .ok out)) :
    out = (p.drop (posOf P r)).take out.length ∧ posOf P r' = posOf P r + out.length ∧
    out.length ≤ n ∧ r.failed = false ∧ r'.failed = false := by
  have hinv := reach_inv P C hC p e hF hU hsmall inner hin r hr
  obtain ⟨_, hok, _⟩ := EncR.readFull_tamper P C hC.tagLen p e hF hU r n hinv
  rw [h] at hok
  obtain ⟨a, b, c, d, f⟩ := hok out rfl
  exact ⟨c, d, f, a, b⟩

/-- **C03, seeks.**  If `seek` answers `.ok q` then the new position is `q`, `q` is the requested
    target (from the OLD position for `Current`, from the end position `endOf P |e|` for `End`), and
    unless the call is the position query `Current(0)` the new state is not failed. -/
theorem seek_sound (inner : ι) (hin : InvI inner) (r : EncR ι) (hr : Reach P C inner r)
    (w : SeekFrom) (r' : EncR ι) (q : Nat) (h : EncR.seekFull P C r w = (r', .ok q)) :
    posOf P r' = q ∧
    (match (generalizing := false) w with
     | .start n => q = n
     | .current d => (q : Int) = (posOf P r : Nat) + d
     | .fromEnd d => (q : Int) = (endOf P e.length : Nat) + d) ∧
    (w ≠ .current 0 → r'.failed = false) := by
  have hinv := reach_inv P C hC p e hF hU hsmall inner hin r hr
  obtain ⟨_, hok, _⟩ := EncR.seekFull_tamper P C hC.tagLen p e hF hU hsmall r w hinv
  rw [h] at hok
  cases w <;> exact hok q rfl

/-- an error of `read` leaves a failed state -/
theorem read_error_failed (inner : ι) (hin : InvI inner) (r : EncR ι) (hr : Reach P C inner r)
    (n : Nat) (er : Err) (h : (EncR.readFull P C r n).2 = .error er) :
    (EncR.readFull P C r n).1.failed = true :=
  (EncR.readFull_tamper P C hC.tagLen p e hF hU r n
    (reach_inv P C hC p e hF hU hsmall inner hin r hr)).2.2 er h

theorem failed_run (r : EncR ι) (hinv : TInv P p e InvI absI r) (hf : r.failed = true)
    (ops : List Op) (hq : Quiet P C r ops) : (run P C r ops).failed = true := by
  induction ops generalizing r with
  | nil => exact hf
  | cons op ops ih =>
    obtain ⟨hq1, hq2⟩ := hq
    have hinv' := inv_step P C hC p e hF hU hsmall r op hinv
    refine ih (step P C r op) hinv' ?_ hq2
    cases op with
    | read n => show (EncR.readFull P C r n).1.failed = true; rw [read_failed P C r n hf]; exact hf
    | seek w =>
      rcases hq1 with rfl | ⟨er, he⟩
      · show (EncR.seekFull P C r (.current 0)).1.failed = true
        simp [EncR.seekFull, hf]
      · exact (EncR.seekFull_tamper P C hC.tagLen p e hF hU hsmall r w hinv).2.2 er he hf

/-- **C03, stickiness.**  After `read` answered an error, every later `read` answers the tag error
    (and returns no byte), as long as no repositioning seek succeeded in between. -/
theorem sticky (inner : ι) (hin : InvI inner) (r : EncR ι) (hr : Reach P C inner r) (n : Nat)
    (er : Err) (h : (EncR.readFull P C r n).2 = .error er) (ops : List Op)
    (hq : Quiet P C (EncR.readFull P C r n).1 ops) (m : Nat) :
    (EncR.readFull P C (run P C (EncR.readFull P C r n).1 ops) m).2 = .error .wrongTag := by
  have hr' : Reach P C inner (EncR.readFull P C r n).1 := Reach.step (.read n) hr
  have hf := failed_run P C hC p e hF hU hsmall _
    (reach_inv P C hC p e hF hU hsmall inner hin _ hr')
    (read_error_failed P C hC p e hF hU hsmall inner hin r hr n er h) ops hq
  rw [read_failed P C _ m hf]

/-- **D14 (documented weakness), part 1.**  The end position reported by `seek(End(0))` is the
    function `endOf` of the LENGTH of the inner stream; nothing authenticates it. -/
theorem endpos (inner : ι) (hin : InvI inner) (r : EncR ι) (hr : Reach P C inner r)
    (r' : EncR ι) (q : Nat) (h : EncR.seekFull P C r (.fromEnd 0) = (r', .ok q)) :
    q = endOf P e.length := by
  have := (seek_sound P C hC p e hF hU hsmall inner hin r hr (.fromEnd 0) r' q h).2.1
  simp only at this
  omega

end

/-- … in particular for a genuine stream cut after `k` whole chunk slots it is `k * chunk`. -/
theorem endOf_truncated (P : Params) (C : EncPrims) (p : Bytes) (k : Nat)
    (hk : k * (P.chunk + P.tagLen) ≤ (sealS P C p).length) :
    endOf P ((sealS P C p).take (k * (P.chunk + P.tagLen))).length = k * P.chunk := by
  rw [List.length_take, Nat.min_eq_left hk, endOf_mul]

/-- such a cut is within the integrity hypothesis: -/
theorem truncated_unforged (P : Params) (C : EncPrims) (hC : C11.EncPrims.Laws P C) (p : Bytes)
    (k : Nat) : Unforged P C p ((sealS P C p).take (k * (P.chunk + P.tagLen))) :=
  unforged_take P C p _ k (unforged_sealS P C hC.tagLen p)

/-- **D14, part 2.**  Over a genuine stream cut after `k ≥ 1` whole chunks the reader is a perfect
    cursor over the first `k * chunk` plaintext bytes: no call ever errs, the cut is undetectable at
    this layer (it is the sealed stream of the shorter plaintext). -/
theorem truncation_accepted {ι : Type} [Stream ι] (P : Params) (C : EncPrims)
    (hC : C11.EncPrims.Laws P C) {InvI : ι → Prop} {absI : ι → Nat} (p : Bytes) (k : Nat)
    (hk1 : 1 ≤ k) (hk : k ≤ nLast P p) (hchunks : p.length / P.chunk + 1 < U32)
    (hI : IsCursor InvI absI ((sealS P C p).take (k * (P.chunk + P.tagLen)))) :
    IsCursor (σ := EncRd P C ι) (EncRd.Inv P C (p.take (k * P.chunk)) InvI absI)
      (fun s => s.r.chunkNo * P.chunk + s.r.cpos) (p.take (k * P.chunk)) := by
  rw [sealS_take P C hC.tagLen p k hk1 hk] at hI
  refine C11.EncRd.isCursor P C hC (p.take (k * P.chunk)) ?_ hI
  have : (p.take (k * P.chunk)).length / P.chunk ≤ p.length / P.chunk :=
    Nat.div_le_div_right (by rw [List.length_take]; omega)
  omega

/-- the "naive" integrity hypothesis is inconsistent with `Laws` (so nothing could be concluded
    from it): see `MlaModel.naive_intctxt_inconsistent` -/
theorem naive_inconsistent (P : Params) (C : EncPrims) (hC : C11.EncPrims.Laws P C) (p : Bytes) :
    ¬ (∀ i dt pt, openChunk P C i dt = .ok pt → i ≤ nLast P p ∧ dt = scChunk P C p i) :=
  naive_intctxt_inconsistent P C hC.tagLen p

/-! ### Non-vacuity

`Unforged` holds of the genuine stream and of its cuts for EVERY `P`, `C` with `Laws`
(`unforged_sealS`, `truncated_unforged`).  Below, a concrete tampered stream: a toy `C` whose tag
depends on the ciphertext, three chunks, one ciphertext bit of chunk 1 flipped.  The hypotheses hold
(checked by `decide`), so the theorems apply to it; and the conclusions are observed on the model. -/

section Example
deriving instance DecidableEq for Except

def exP : Params := Params.scaled 4 3 8 2 4 (by decide)
def exC : EncPrims :=
  { ks := fun i off => (i * 7 + off).toUInt8,
    tag := fun i c => List.replicate 16 (c.foldl (· + ·) (i.toUInt8 + 1)) }
def exPlain : Bytes := [10, 11, 12, 13, 14, 15, 16, 17, 18]
def exGood : Bytes := sealS exP exC exPlain
/-- byte 21 = second ciphertext byte of chunk 1, low bit flipped -/
def exBad : Bytes := exGood.set 21 (exGood.getD 21 0 ^^^ 1)

theorem exLaws : C11.EncPrims.Laws exP exC := ⟨fun _ _ => by simp [exC, exP, Params.scaled]⟩

theorem exUnforged : Unforged exP exC exPlain exBad := by
  apply unforged_of_check
  decide

theorem exSmall : exBad.length ≤ U32 * (exP.chunk + exP.tagLen) := by decide

/-- the theorems apply to the tampered stream held by an in-memory cursor -/
example (r : EncR Cur) (hr : Reach exP exC (⟨exBad, 0⟩ : Cur) r) (n : Nat) (r' : EncR Cur)
    (out : Bytes) (h : EncR.readFull exP exC r n = (r', .ok out)) :
    out = (exPlain.drop (posOf exP r)).take out.length :=
  (read_sound exP exC exLaws exPlain exBad (Cur.isFullCursor exBad) exUnforged exSmall
    ⟨exBad, 0⟩ rfl r hr n r' out h).1

/-- what happens on it: chunk 0 is delivered, the read that needs chunk 1 answers the tag error and
    so does every later read; a seek into chunk 1 fails; a seek into chunk 2 succeeds and genuine
    bytes come out again -/
def st0 : EncR Cur := (EncR.init exP exC (⟨exBad, 0⟩ : Cur)).1
def st1 : EncR Cur := (EncR.readFull exP exC st0 4).1
def st2 : EncR Cur := (EncR.readFull exP exC st1 4).1
def st3 : EncR Cur := (EncR.seekFull exP exC st2 (.start 8)).1
example : (EncR.init exP exC (⟨exBad, 0⟩ : Cur)).2 = .ok 0 := by decide
example : (EncR.readFull exP exC st0 4).2 = .ok [10, 11, 12, 13] := by decide
example : (EncR.readFull exP exC st1 4).2 = .error .wrongTag := by decide
example : (EncR.readFull exP exC st2 4).2 = .error .wrongTag := by decide
example : (EncR.seekFull exP exC st2 (.start 5)).2 = .error .wrongTag := by decide
example : (EncR.seekFull exP exC st2 (.start 8)).2 = .ok 8 := by decide
example : (EncR.readFull exP exC st3 4).2 = .ok [18] := by decide
/-- D14 observed: the stream cut after 2 chunk slots reports end position 8 and reads cleanly -/
example : (EncR.seekFull exP exC (EncR.init exP exC (⟨exGood.take 40, 0⟩ : Cur)).1 (.fromEnd 0)).2
    = .ok 8 := by decide
end Example

end MlaModel.C03

/-
  C06 — archives conform to format v1 as documented, in both directions; the incremental AES-GCM
  core gives the standard ciphertext and tag for every way of splitting a message into calls.

  The model files `MlaModel/Gcm.lean`, `Header.lean`, `Archive.lean` are written from FORMAT.md
  (and compared with the code by the harness, `harness/src/c06.rs`).  Theorems, all for every
  `Params` and every instance of the abstract primitives:

    * `gcm_split`      : `AesGcm256::encrypt` called on ANY sequence of pieces (empty ones included)
                         then `into_tag` = one-shot GCM of the concatenation (ciphertext and tag).
      `gcm_inv`        : the invariant behind it (keystream offset = bytes so far; GHASH state = the
                         whole 16-byte blocks; `current_block` = the tail, shorter than 16).
      `gcm_decrypt`    : `decrypt` (one-shot in the code) of a sealed message returns the message and
                         its tag; `gcm_open_seal`.
    * `nonce`          : the encryption writer seals chunk `k` as ONE GCM message under the nonce
                         `N ‖ be32 k` with empty associated data, `k = 0, 1, …, n` in order, each once,
                         its counter equals the number of tags emitted; the nonces are pairwise
                         distinct while the counter fits 32 bits (`nonce12_inj`).
      `writer_chunks`  : the same for arbitrary per-chunk primitives (chunk `k` ↦ `C.ks k`, `C.tag k`);
      `nonce_native`   : the native instance does use `nonce12 nonce8 i` for chunk `i`.
    * `header_roundtrip`: `Header.decode (h.encode ++ rest) = (h, rest)`.
    * `unwrap_wrap`    : every recipient of the list recovers the symmetric key (Diffie-Hellman
                         commutativity and "no accidental tag match on an earlier entry" as explicit
                         hypotheses; the latter is necessary: `unwrap_wrap_needs_noforge`);
      `unwrap_wrap_first` : no such hypothesis for the first recipient (e.g. a single recipient).
    * `decompress_compress`, `layout` : see the second half of this file.
-/
import MlaModel.Proofs.Gcm
import MlaModel.Proofs.Header
import MlaModel.Native
namespace MlaModel.C06
open MlaModel

/-! ## The incremental GCM core -/

/-- **C06.gcm_split** — for every instance of the primitives, every associated-data length, every
    list of pieces (empty pieces included): the concatenation of what the `encrypt` calls return and
    the tag returned by `into_tag` are the one-shot ciphertext and tag of the concatenated message. -/
theorem gcm_split (G : GcmPrims) (aadLen : Nat) (pieces : List Bytes) :
    Gcm.encryptPieces G aadLen pieces = Gcm.sealMsg G aadLen pieces.flatten := by
  obtain ⟨hi, ho⟩ := Gcm.foldl_inv G aadLen pieces (Gcm.init G aadLen) [] [] (Gcm.inv_init G aadLen) rfl
  simp only [List.nil_append] at hi ho
  simp only [Gcm.encryptPieces, Gcm.sealMsg, ho, Gcm.intoTag_inv G aadLen _ _ hi]

/-- the invariant of `AesGcm256` after any sequence of `encrypt` calls: cipher offset and byte
    counter = number of bytes so far, GHASH state = GHASH of the whole 16-byte blocks of the
    ciphertext so far, `current_block` = the rest of the ciphertext, shorter than 16 bytes -/
theorem gcm_inv (G : GcmPrims) (aadLen : Nat) (pieces : List Bytes) :
    let s := (pieces.foldl (fun (acc : GcmSt × Bytes) p =>
      ((Gcm.encrypt G acc.1 p).1, acc.2 ++ (Gcm.encrypt G acc.1 p).2)) (Gcm.init G aadLen, [])).1
    let ct := xorAt G.ks 0 pieces.flatten
    s.pos = pieces.flatten.length ∧ s.n = pieces.flatten.length ∧
    s.gh = ghFold G (ct.length / 16) G.ghInit ct ∧
    s.cur = ct.drop (ct.length / 16 * 16) ∧ s.cur.length < 16 := by
  obtain ⟨hi, _⟩ := Gcm.foldl_inv G aadLen pieces (Gcm.init G aadLen) [] [] (Gcm.inv_init G aadLen) rfl
  simp only [List.nil_append] at hi
  exact ⟨hi.pos, hi.n, hi.gh, hi.cur, hi.cur_lt⟩

/-- **C06.gcm_decrypt** — `decrypt` is one-shot in the code (it hashes its whole buffer, then
    finalises): on a fresh state, over the ciphertext of a sealed message, it returns the message
    and the message's tag. -/
theorem gcm_decrypt (G : GcmPrims) (aadLen : Nat) (m : Bytes) :
    (Gcm.decrypt G (Gcm.init G aadLen) (Gcm.sealMsg G aadLen m).1).2 = (m, (Gcm.sealMsg G aadLen m).2) := by
  simp [Gcm.decrypt, Gcm.init, Gcm.sealMsg, Gcm.tagOf, xorAt_invol]

/-- verify-and-decrypt of a sealed message gives the message back -/
theorem gcm_open_seal (G : GcmPrims) (aadLen : Nat) (m : Bytes) :
    Gcm.openMsg G aadLen (Gcm.sealMsg G aadLen m).1 (Gcm.sealMsg G aadLen m).2 = some m := by
  simp [Gcm.openMsg, Gcm.sealMsg, xorAt_invol]

/-! non-vacuity / concrete evaluation: toy primitives whose GHASH step is order sensitive; a 37-byte
    message cut into 6 pieces (two empty, one crossing two block boundaries). -/
def exG : GcmPrims :=
  { ks := fun i => (7 * i + 3).toUInt8
    ghStep := fun y x => List.zipWith (fun a b => 3 * a + b + 1) (y ++ List.replicate (16 - y.length) 0) x
    ghInit := List.replicate 16 5
    mask := fun y => y.map (· + 9) }
def exPieces : List Bytes :=
  [[1, 2, 3, 4, 5], [], (List.range 27).map (·.toUInt8), [], [200, 201, 202], [9, 8]]

example : (exPieces.map List.length) = [5, 0, 27, 0, 3, 2] := by decide
example : Gcm.encryptPieces exG 3 exPieces = Gcm.sealMsg exG 3 exPieces.flatten := gcm_split _ _ _
example : (Gcm.encryptPieces exG 3 exPieces).2 =
    [181, 45, 73, 67, 233, 126, 86, 246, 38, 254, 214, 94, 134, 94, 87, 166] := by decide
/-- the tag does depend on `current_block` (the last 5 bytes): dropping the last piece changes it -/
example : (Gcm.encryptPieces exG 3 exPieces).2 ≠ (Gcm.encryptPieces exG 3 exPieces.dropLast).2 := by decide

/-! ## Chunk nonces -/

/-- plaintext of chunk `k` -/
def chunkOf (P : Params) (p : Bytes) (k : Nat) : Bytes := (p.drop (k * P.chunk)).take P.chunk

/-- chunk `k` sealed as one GCM message under `gcm nonce`, empty associated data -/
def sealedChunk (G : GcmPrims) (m : Bytes) : Bytes := (Gcm.sealMsg G 0 m).1 ++ (Gcm.sealMsg G 0 m).2

theorem encFull_eq_range (P : Params) (gcm : Bytes → GcmPrims) (n8 : Bytes) (n : Nat) (p : Bytes) :
    encFull P (EncPrims.ofGcm gcm n8) n 0 p =
      ((List.range n).map fun k => sealedChunk (gcm (nonce12 n8 k)) (chunkOf P p k)).flatten := by
  induction n with
  | zero => simp [encFull]
  | succ n ih =>
    rw [encFull_succ_end, ih, List.range_succ]
    simp [sealedChunk, Gcm.sealMsg, EncPrims.ofGcm, chunkOf]

/-- chunk `k` as the writer seals it with arbitrary per-chunk primitives: ciphertext ‖ tag -/
def sealedBy (C : EncPrims) (k : Nat) (m : Bytes) : Bytes :=
  xorAt (C.ks k) 0 m ++ C.tag k (xorAt (C.ks k) 0 m)

theorem encFull_eq_range' (P : Params) (C : EncPrims) (n : Nat) (p : Bytes) :
    encFull P C n 0 p = ((List.range n).map fun k => sealedBy C k (chunkOf P p k)).flatten := by
  induction n with
  | zero => simp [encFull]
  | succ n ih =>
    rw [encFull_succ_end, ih, List.range_succ]
    simp [sealedBy, chunkOf]

/-- **C06.writer_chunks** — for ANY per-chunk primitives `C` (in particular the native ones, see
    `nonce_native`): whatever the split into `write_all` calls, the writer's counter ends at the index
    of the last chunk and the bytes emitted (`finalize` included) are chunk `0`, chunk `1`, …,
    chunk `n`, each sealed once with the primitives of ITS index: `C.ks k`, `C.tag k`. -/
theorem writer_chunks (P : Params) (C : EncPrims) (pieces : List Bytes) :
    let r := encWritePieces P C pieces
    let p := pieces.flatten
    let n := (p.length - 1) / P.chunk
    r.1.ctr = n ∧
    r.2 ++ r.1.finalize C = ((List.range (n + 1)).map fun k => sealedBy C k (chunkOf P p k)).flatten := by
  intro r p n
  have hc := P.hchunk
  have hinv : EW.Inv P C r.1 p r.2 := encWritePieces_inv P C pieces
  have hn : r.1.ctr = n := by
    obtain ⟨hlen, hle, _, _, hnz⟩ := hinv
    show r.1.ctr = (p.length - 1) / P.chunk
    by_cases hz : r.1.cur = []
    · have h0 := hnz hz
      have : r.1.cur.length = 0 := by simp [hz]
      rw [hlen, h0, this]; simp
    · have hpos : 0 < r.1.cur.length := List.length_pos_iff.mpr hz
      rw [hlen]
      have : r.1.ctr * P.chunk + r.1.cur.length - 1 = P.chunk * r.1.ctr + (r.1.cur.length - 1) := by
        rw [Nat.mul_comm]; omega
      rw [this, Nat.mul_add_div hc, Nat.div_eq_of_lt (by omega)]; omega
  refine ⟨hn, ?_⟩
  rw [encWritePieces_seal]
  show sealS P C p = _
  have h1 : n * P.chunk ≤ p.length - 1 := Nat.div_mul_le_self _ _
  have h2 : p.length - 1 < n * P.chunk + P.chunk := Nat.lt_div_mul_add hc
  have hlast : p.drop (n * P.chunk) = chunkOf P p n := by
    rw [chunkOf, List.take_of_length_le (by simp; omega)]
  rw [List.range_succ, List.map_append, List.flatten_append, ← encFull_eq_range']
  simp only [sealS, List.map_cons, List.map_nil, List.flatten_cons, List.flatten_nil, List.append_nil]
  show encFull P C n 0 p ++ xorAt (C.ks n) 0 (p.drop (n * P.chunk)) ++ _ = _
  rw [hlast, List.append_assoc]
  rfl

/-- **C06.nonce** — over any family of GCM instances indexed by the 12-byte nonce: whatever the
    split of the plaintext into `write_all` calls,
    (1) the writer's chunk counter (starting at 0, incremented with each emitted tag) ends at the
        index `n = (|p| − 1) / chunk` of the last chunk;
    (2) the bytes emitted, `finalize` included, are, for `k = 0, 1, …, n` in this order and each
        index once, chunk `k` of the plaintext sealed as ONE GCM message (ciphertext ‖ tag) under the
        nonce `N ‖ be32 k` with empty associated data;
    (3) these nonces are pairwise distinct as long as `n < 2^32`.
    (The Rust counter is a `u32` incremented with `+=`: beyond 2^32 chunks — 512 TiB — a debug build
    panics and a release build wraps and reuses nonces; the model's counter is a `Nat`.) -/
theorem nonce (P : Params) (gcm : Bytes → GcmPrims) (n8 : Bytes) (pieces : List Bytes) :
    let C := EncPrims.ofGcm gcm n8
    let r := encWritePieces P C pieces
    let p := pieces.flatten
    let n := (p.length - 1) / P.chunk
    r.1.ctr = n ∧
    r.2 ++ r.1.finalize C =
      ((List.range (n + 1)).map fun k => sealedChunk (gcm (nonce12 n8 k)) (chunkOf P p k)).flatten ∧
    (n < 2 ^ 32 → ∀ i j, i ≤ n → j ≤ n → nonce12 n8 i = nonce12 n8 j → i = j) := by
  intro C r p n
  have hc := P.hchunk
  have hinv : EW.Inv P C r.1 p r.2 := encWritePieces_inv P C pieces
  have hn : r.1.ctr = n := by
    obtain ⟨hlen, hle, _, _, hnz⟩ := hinv
    show r.1.ctr = (p.length - 1) / P.chunk
    by_cases hz : r.1.cur = []
    · have h0 := hnz hz
      have : r.1.cur.length = 0 := by simp [hz]
      rw [hlen, h0, this]; simp
    · have hpos : 0 < r.1.cur.length := List.length_pos_iff.mpr hz
      rw [hlen]
      have : r.1.ctr * P.chunk + r.1.cur.length - 1 = P.chunk * r.1.ctr + (r.1.cur.length - 1) := by
        rw [Nat.mul_comm]; omega
      rw [this, Nat.mul_add_div hc, Nat.div_eq_of_lt (by omega)]; omega
  refine ⟨hn, ?_, ?_⟩
  · rw [encWritePieces_seal]
    show sealS P C p = _
    have h1 : n * P.chunk ≤ p.length - 1 := Nat.div_mul_le_self _ _
    have h2 : p.length - 1 < n * P.chunk + P.chunk := Nat.lt_div_mul_add hc
    have hlast : p.drop (n * P.chunk) = chunkOf P p n := by
      rw [chunkOf, List.take_of_length_le (by simp; omega)]
    rw [List.range_succ, List.map_append, List.flatten_append, ← encFull_eq_range]
    simp only [sealS, List.map_cons, List.map_nil, List.flatten_cons, List.flatten_nil, List.append_nil]
    show encFull P C n 0 p ++ xorAt (C.ks n) 0 (p.drop (n * P.chunk)) ++ _ = _
    rw [hlast, List.append_assoc]
    rfl
  · intro hn32 i j hi hj h
    exact nonce12_inj n8 i j (by omega) (by omega) h

/-- in terms of calls to the cipher: chunk `k`'s GCM message is what `AesGcm256::new(key, N‖be32 k,
    "")`, `encrypt` on ANY split of the chunk (the writer cuts it into pieces of at most `cbuf`
    bytes), `into_tag` produce -/
theorem chunk_by_calls (gcm : Bytes → GcmPrims) (n8 : Bytes) (k : Nat) (pieces : List Bytes) :
    (Gcm.encryptPieces (gcm (nonce12 n8 k)) 0 pieces).1 ++ (Gcm.encryptPieces (gcm (nonce12 n8 k)) 0 pieces).2 =
      sealedChunk (gcm (nonce12 n8 k)) pieces.flatten := by
  rw [gcm_split]; rfl

/-- `nonce12` is `nonce8 ‖ be32 i`: 4 more bytes, the counter most significant byte first -/
example : nonce12 [1, 2, 3, 4, 5, 6, 7, 8] 0x01020304 = [1, 2, 3, 4, 5, 6, 7, 8, 1, 2, 3, 4] := by decide
example : nonce12 [1, 2, 3, 4, 5, 6, 7, 8] 0 = [1, 2, 3, 4, 5, 6, 7, 8, 0, 0, 0, 0] := by decide

/-- non-vacuity of `nonce`: chunk = 4, 9 bytes in three writes → three messages under nonces
    `N‖0`, `N‖1`, `N‖2` -/
example :
    let P := Params.scaled 4 3 8 2 4 (by decide)
    let r := encWritePieces P (EncPrims.ofGcm (fun n => { exG with ks := fun i => (n.getLastD 0) + i.toUInt8 }) [7])
      [[1, 2, 3], [4, 5, 6, 7, 8], [9]]
    r.1.ctr = 2 ∧ r.2.length = 9 + 2 * 16 := by decide

/-- **C06.nonce_native** — the native instance: the tag of chunk `i` is the AES-256-GCM tag under the
    nonce `nonce8 ‖ be32 i` with empty associated data, and its keystream bytes are read from the
    CTR keystream generated under that same nonce from counter block 2. -/
theorem nonce_native (key n8 : Bytes) (chunk total : Nat) (i : Nat) :
    (∀ ct, (nativePrimsFor key n8 chunk total).tag i ct =
      Crypto.toList ((Crypto.GcmKey.new (Crypto.ofList key)).tag
        (Crypto.ofList (nonce12 n8 i)) ByteArray.empty (Crypto.ofList ct))) ∧
    (∀ off, ∃ len, (nativePrimsFor key n8 chunk total).ks i off =
      Crypto.byteAt (nativeRow (Crypto.GcmKey.new (Crypto.ofList key)) (nonce12 n8 i) len) off) := by
  refine ⟨fun ct => rfl, fun off => ?_⟩
  simp only [nativePrimsFor]
  split
  · rename_i row hrow
    simp only [Array.getElem?_map, Array.getElem?_range] at hrow
    split at hrow
    · simp only [Option.map_some, Option.some.injEq] at hrow
      subst hrow
      split
      · exact ⟨_, rfl⟩
      · exact ⟨_, rfl⟩
    · simp at hrow
  · exact ⟨_, rfl⟩

/-! ## Header -/

/-- **C06.header_roundtrip** — the reader's parse of a header the writer can emit, followed by
    anything, gives back the header and what follows. -/
theorem header_roundtrip (h : Header) (hwf : h.WF) (rest : Bytes) :
    Header.decode (h.encode ++ rest) = .ok (h, rest) :=
  Header.decode_encode h hwf rest

/-- the layout FORMAT.md gives for the sample: "MLA", version 1, layers 3, config present, public
    key, one (key, tag), nonce, then data -/
example :
    (Header.encode ⟨3, some ⟨List.replicate 32 0x97, [(List.replicate 32 0x99, List.replicate 16 0x34)],
      List.replicate 8 0x0e⟩⟩) =
    [0x4d, 0x4c, 0x41, 1, 0, 0, 0, 3, 1] ++ List.replicate 32 0x97 ++ [1, 0, 0, 0, 0, 0, 0, 0] ++
      List.replicate 32 0x99 ++ List.replicate 16 0x34 ++ List.replicate 8 0x0e := by decide

example : (⟨3, some ⟨List.replicate 32 0x97, [(List.replicate 32 0x99, List.replicate 16 0x34)],
      List.replicate 8 0x0e⟩⟩ : Header).WF := by
  refine ⟨by decide, by decide, ?_, by decide, by decide⟩
  intro kt hk; simp at hk; subst hk; decide

example : Header.decode ([0x4d, 0x4c, 0x41, 1, 0, 0, 0, 0, 0] ++ [5, 6]) = .ok (⟨0, none⟩, [5, 6]) := by rfl
example : Header.decode [0x4d, 0x4c, 0x42, 1, 0, 0, 0, 0, 0] = .error .magic := by rfl
example : Header.decode [0x4d, 0x4c, 0x41, 2, 0, 0, 0, 0, 0] = .error .version := by rfl
example : Header.decode [0x4d, 0x4c, 0x41, 1, 0, 0, 0, 0, 2] = .error .deser := by rfl
example : Header.decode [0x4d, 0x4c] = .error .eof := by rfl

/-! ## Key wrapping -/

/-- **C06.unwrap_wrap** — the symmetric key wrapped for the public keys `recipients` (arbitrary byte
    strings) with the ephemeral scalar `eph` is recovered by the holder of the secret `s` of the
    `i`-th one, whatever the others are, provided
      * `hdh`: Diffie-Hellman commutes on the base point;
      * `hNoForge`: no EARLIER entry, wrapped under a different derived key, happens to carry a tag
        that verifies under recipient `i`'s derived key (the loop of `retrieve_key` stops at the
        first entry whose tag matches). -/
theorem unwrap_wrap (X : Ecies) (hdh : ∀ a b, X.dh a (X.dh b X.base) = X.dh b (X.dh a X.base))
    (eph key s : Bytes) (recipients : List Bytes) (i : Nat) (hi : i < recipients.length)
    (hs : recipients[i] = X.dh s X.base)
    (hNoForge : ∀ j (hj : j < recipients.length), j < i →
      X.kdf (X.dh eph recipients[j]) ≠ X.kdf (X.dh eph recipients[i]) →
      let Gi := X.gcm (X.kdf (X.dh eph recipients[i]))
      (Gcm.decrypt Gi (Gcm.init Gi 0) (X.wrapOne eph key recipients[j]).1).2.2 ≠
        (X.wrapOne eph key recipients[j]).2) :
    X.unwrap s (X.wrap eph key recipients).1 (X.wrap eph key recipients).2 = some key := by
  have hkey : X.kdf (X.dh s (X.dh eph X.base)) = X.kdf (X.dh eph recipients[i]) := by
    rw [hs, hdh]
  simp only [Ecies.unwrap, Ecies.wrap, hkey]
  generalize hG : X.gcm (X.kdf (X.dh eph recipients[i])) = Gi at *
  have hown : ∀ r, X.kdf (X.dh eph r) = X.kdf (X.dh eph recipients[i]) →
      (Gcm.decrypt Gi (Gcm.init Gi 0) (X.wrapOne eph key r).1).2 = (key, (X.wrapOne eph key r).2) := by
    intro r hr
    have := Gcm.decrypt_encrypt Gi 0 key
    simpa [Ecies.wrapOne, hr, hG] using this
  apply Ecies.tryKeys_found Gi key _ i (by simpa using hi)
  · have := hown recipients[i] rfl
    simp only [List.getElem_map]
    rw [this]; exact ⟨rfl, rfl⟩
  · intro j hj hji hv
    have hj' : j < recipients.length := by simpa using hj
    simp only [List.getElem_map] at hv ⊢
    by_cases hk : X.kdf (X.dh eph recipients[j]) = X.kdf (X.dh eph recipients[i])
    · rw [hown recipients[j] hk]
    · exact absurd hv (hNoForge j hj' hji hk)

/-- the first recipient of the list (in particular a single recipient) needs no such hypothesis -/
theorem unwrap_wrap_first (X : Ecies) (hdh : ∀ a b, X.dh a (X.dh b X.base) = X.dh b (X.dh a X.base))
    (eph key s : Bytes) (others : List Bytes) :
    X.unwrap s (X.wrap eph key (X.dh s X.base :: others)).1
      (X.wrap eph key (X.dh s X.base :: others)).2 = some key :=
  unwrap_wrap X hdh eph key s (X.dh s X.base :: others) 0 (by simp) rfl (fun j _ hj => by omega)

/-! `hNoForge` is necessary: toy primitives whose tag is constant.  Diffie-Hellman commutes, two
    recipients with different derived keys; the second one stops at the first entry (its tag
    "verifies") and gets a wrong key. -/
def cexX : Ecies :=
  { dh := fun a b => [a.foldl (· + ·) 0 + b.foldl (· + ·) 0]
    base := [1]
    kdf := id
    gcm := fun k => { ks := fun _ => k.headD 0, ghStep := fun _ _ => [], ghInit := [], mask := fun _ => [] } }

theorem cexX_dh : ∀ a b, cexX.dh a (cexX.dh b cexX.base) = cexX.dh b (cexX.dh a cexX.base) := by
  intro a b
  simp only [cexX, List.foldl_cons, List.foldl_nil, List.cons.injEq, and_true]
  generalize a.foldl (· + ·) (0 : UInt8) = x
  generalize b.foldl (· + ·) (0 : UInt8) = y
  simp only [UInt8.zero_add]
  rw [← UInt8.add_assoc, ← UInt8.add_assoc, UInt8.add_comm x y]

/-- recipient 0 (secret [10]) recovers the key; recipient 1 (secret [20]) does not -/
theorem unwrap_wrap_needs_noforge :
    let rs := [cexX.dh [10] cexX.base, cexX.dh [20] cexX.base]
    let w := cexX.wrap [5] [42, 43] rs
    cexX.unwrap [10] w.1 w.2 = some [42, 43] ∧ cexX.unwrap [20] w.1 w.2 ≠ some [42, 43] := by
  decide

/-- non-vacuity of `unwrap_wrap` with position 1 of 2: primitives whose tag depends on the key -/
def exX : Ecies :=
  { cexX with
    gcm := fun k => { ks := fun _ => k.headD 0, ghStep := fun y x => y ++ x, ghInit := k,
                      mask := fun y => y } }

theorem exX_dh : ∀ a b, exX.dh a (exX.dh b exX.base) = exX.dh b (exX.dh a exX.base) := cexX_dh

example :
    exX.unwrap [20] (exX.wrap [5] [42, 43] [exX.dh [10] exX.base, exX.dh [20] exX.base]).1
      (exX.wrap [5] [42, 43] [exX.dh [10] exX.base, exX.dh [20] exX.base]).2 = some [42, 43] := by
  apply unwrap_wrap exX exX_dh [5] [42, 43] [20] _ 1 (by decide) rfl
  intro j hj hj1 _
  have : j = 0 := by omega
  subst this
  decide +revert

end MlaModel.C06

/-
  C17 — The command-line tool's commands agree with each other and with the input files.

  Statements over `MlaModel.CliCmd` (the sub-commands of `mlar` composed over an abstract library whose
  laws are C01 / C05 / C06 and the key handling of the encryption layer):
    * `chain`     : any valid chain  create → (repair | convert opts)*  ends in an archive that holds the
                    same file map (same names, same bytes per name), under the last step's header;
    * `readback`  : on such an archive, with fitting keys: `list` = the names, sorted; `cat n` = the
                    bytes of `n`; `extract` hands over exactly (name, bytes); `to-tar` entries carry
                    size = length of the bytes; `list -vv` shows that size and the hash of the bytes;
    * `pipeline`  : the two together, from `create`;
    * `keys_locked`, `keys_unneeded`, `keys_full_iff` : the key rules, sub-command by sub-command.
-/
import MlaModel.CliCmd
namespace MlaModel.C17
open MlaModel MlaModel.CliCmd

/-! ### list helpers -/

theorem lookup_eq_none {fm : FileMap} {n : Name} : fm.lookup n = none ↔ n ∉ fm.map Prod.fst := by
  induction fm with
  | nil => simp
  | cons x xs ih =>
    obtain ⟨a, b⟩ := x
    simp only [List.lookup_cons, List.map_cons, List.mem_cons, not_or]
    by_cases h : n = a
    · subst h; simp
    · have : (n == a) = false := by simp [h]
      simp [this, ih, h]

theorem lookup_of_mem {fm : FileMap} {n : Name} (h : n ∈ fm.map Prod.fst) : ∃ b, fm.lookup n = some b := by
  cases hl : fm.lookup n with
  | none => exact absurd h (lookup_eq_none.mp hl)
  | some b => exact ⟨b, rfl⟩

theorem lookup_map_self (l : List Name) (g : Name → Bytes) (n : Name) :
    (l.map (fun m => (m, g m))).lookup n = if n ∈ l then some (g n) else none := by
  induction l with
  | nil => simp
  | cons a l ih =>
    simp only [List.map_cons, List.lookup_cons, List.mem_cons]
    by_cases h : n = a
    · subst h; simp
    · have : (n == a) = false := by simp [h]
      simp [this, ih, h]

theorem filterMap_eq_map {α β : Type} (f : α → Option β) (g : α → β) (l : List α)
    (h : ∀ a ∈ l, f a = some (g a)) : l.filterMap f = l.map g := by
  induction l with
  | nil => rfl
  | cons a l ih =>
    simp only [List.filterMap_cons, h a (by simp), List.map_cons]
    rw [ih (fun b hb => h b (List.mem_cons_of_mem _ hb))]

theorem leB_trans (a b c : Name) : leB a b = true → leB b c = true → leB a c = true := by
  unfold leB
  simp only [decide_eq_true_eq]
  exact List.le_trans

theorem leB_total (a b : Name) : (leB a b || leB b a) = true := by
  unfold leB
  simp only [Bool.or_eq_true, decide_eq_true_eq]
  exact List.le_total a b

theorem insertName_perm (a : Name) (l : List Name) : (insertName a l).Perm (a :: l) := by
  induction l with
  | nil => exact List.Perm.refl _
  | cons b l ih =>
    unfold insertName
    split
    · exact List.Perm.refl _
    · exact (List.Perm.cons b ih).trans (List.Perm.swap a b l)

theorem sortNames_perm (l : List Name) : (sortNames l).Perm l := by
  induction l with
  | nil => exact List.Perm.refl _
  | cons a l ih =>
    show (insertName a (sortNames l)).Perm (a :: l)
    exact (insertName_perm a _).trans (List.Perm.cons a ih)

theorem insertName_sorted (a : Name) (l : List Name) (h : l.Pairwise (fun x y => x ≤ y)) :
    (insertName a l).Pairwise (fun x y => x ≤ y) := by
  induction l with
  | nil => simp [insertName]
  | cons b l ih =>
    unfold insertName
    have hb := List.pairwise_cons.mp h
    split
    · rename_i hab
      have hab' : a ≤ b := by simpa [leB] using hab
      refine List.pairwise_cons.mpr ⟨?_, h⟩
      intro c hc
      simp only [List.mem_cons] at hc
      rcases hc with rfl | hc
      · exact hab'
      · exact List.le_trans hab' (hb.1 c hc)
    · rename_i hab
      have hba : b ≤ a := by
        have := leB_total a b
        simp only [Bool.or_eq_true] at this
        rcases this with h1 | h1
        · exact absurd h1 hab
        · simpa [leB] using h1
      refine List.pairwise_cons.mpr ⟨?_, ih hb.2⟩
      intro c hc
      have := (insertName_perm a l).mem_iff.mp hc
      simp only [List.mem_cons] at this
      rcases this with rfl | hc
      · exact hba
      · exact hb.1 c hc

theorem sortNames_sorted (l : List Name) : (sortNames l).Pairwise (fun a b => a ≤ b) := by
  induction l with
  | nil => simp [sortNames]
  | cons a l ih => exact insertName_sorted a _ ih

/-! ### the invariant of a chain -/

/-- bytes of `n` in a file map (`[]` for a name that is not there) -/
def content (fm : FileMap) (n : Name) : Bytes := (fm.lookup n).getD []

/-- `fm'` holds the same files as `fm`: same set of (distinct) names, same bytes for every name -/
structure Same (fm fm' : FileMap) : Prop where
  nodup : (fm'.map Prod.fst).Nodup
  names : (fm'.map Prod.fst).Perm (fm.map Prod.fst)
  bytes : ∀ n, fm'.lookup n = fm.lookup n

theorem Same.refl {fm : FileMap} (h : (fm.map Prod.fst).Nodup) : Same fm fm :=
  ⟨h, List.Perm.refl _, fun _ => rfl⟩

theorem keysFit_canOpen {h : Header} {keys : List Key} (hk : KeysFit h keys) :
    canOpen h keys ∧ ¬ (keys ≠ [] ∧ h.encrypt = false) := by
  unfold KeysFit at hk
  unfold canOpen
  cases he : h.encrypt with
  | true => simp only [he, if_true] at hk; exact ⟨Or.inr hk, by simp⟩
  | false => simp only [he] at hk; exact ⟨Or.inl rfl, by simp at hk; simp [hk]⟩

variable {L : Lib}

/-- what `open_mla_file` gives on an archive written by the library, with fitting keys -/
theorem openMla_ok (laws : L.Laws) {h : Header} {lvl : Nat} {fm' : FileMap} {keys : List Key}
    (hnd : (fm'.map Prod.fst).Nodup) (hk : KeysFit h keys) :
    ∃ w, openMla L keys (L.write h lvl fm') = .ok w ∧ w.names.Perm (fm'.map Prod.fst) ∧
      ∀ n, w.get n = (fm'.lookup n).map (fun b => (b.length, b)) := by
  obtain ⟨hc, hno⟩ := keysFit_canOpen hk
  obtain ⟨w, hw, h1, h2⟩ := laws.read_write h lvl fm' keys hnd hc
  refine ⟨w, ?_, h1, h2⟩
  unfold openMla
  rw [laws.header_write]
  simp only [hno, if_false, hw]

theorem entries_eq {fm' : FileMap} {w : View} (h1 : w.names.Perm (fm'.map Prod.fst))
    (h2 : ∀ n, w.get n = (fm'.lookup n).map (fun b => (b.length, b))) :
    entries w = (sortNames w.names).map (fun n => (n, (content fm' n).length, content fm' n)) := by
  unfold entries
  apply filterMap_eq_map
  intro n hn
  have hn' : n ∈ fm'.map Prod.fst := h1.mem_iff.mp ((sortNames_perm _).mem_iff.mp hn)
  obtain ⟨b, hb⟩ := lookup_of_mem hn'
  simp [h2 n, hb, content]

/-- the file list `convert` writes holds the same files -/
theorem convert_same {fm fm' : FileMap} {w : View} (hs : Same fm fm')
    (h1 : w.names.Perm (fm'.map Prod.fst))
    (h2 : ∀ n, w.get n = (fm'.lookup n).map (fun b => (b.length, b))) :
    Same fm ((entries w).map (fun x => (x.1, x.2.2))) := by
  rw [entries_eq h1 h2]
  simp only [List.map_map]
  have hfun : ((fun x : Name × Nat × Bytes => (x.1, x.2.2)) ∘
      fun n => (n, (content fm' n).length, content fm' n)) = fun n => (n, content fm' n) := rfl
  rw [hfun]
  have hfst : ((sortNames w.names).map (fun n => (n, content fm' n))).map Prod.fst = sortNames w.names := by
    simp [List.map_map, Function.comp_def]
  have hperm : (sortNames w.names).Perm (fm'.map Prod.fst) := (sortNames_perm _).trans h1
  refine ⟨?_, ?_, ?_⟩
  · rw [hfst]; exact hperm.nodup_iff.mpr hs.nodup
  · rw [hfst]; exact hperm.trans hs.names
  · intro n
    rw [lookup_map_self, ← hs.bytes n]
    by_cases hn : n ∈ sortNames w.names
    · obtain ⟨b, hb⟩ := lookup_of_mem (hperm.mem_iff.mp hn)
      simp [hn, content, hb]
    · have : n ∉ fm'.map Prod.fst := fun h => hn (hperm.mem_iff.mpr h)
      simp [hn, lookup_eq_none.mpr this]

/-- **C17.chain** — under the library laws, any chain of `repair` / `convert` steps, each given keys
    that fit the archive it reads and acceptable output options, succeeds, and the archive it ends
    with was written under the last step's header and holds the same files (names and bytes). -/
theorem chain (laws : L.Laws) (v : Variant) (fm : FileMap) :
    ∀ (steps : List Step) (h : Header) (lvl : Nat) (fm' : FileMap), Same fm fm' → ValidChain h steps →
      ∃ lvl' fm'', runChain L v (L.write h lvl fm') steps = .ok (L.write (lastHeader h steps) lvl' fm'') ∧
        Same fm fm'' := by
  intro steps
  induction steps with
  | nil => intro h lvl fm' hs _; exact ⟨lvl, fm', rfl, hs⟩
  | cons s ss ih =>
    intro h lvl fm' hs hv
    obtain ⟨hk, h', hh', hv'⟩ := hv
    obtain ⟨hc, hno⟩ := keysFit_canOpen hk
    cases s with
    | repair keys o =>
      simp only [Step.keys, Step.opts] at hk hh' hc hno
      have hsalv := laws.salvage_write h lvl fm' keys hs.nodup hc
      have hstep : runStep L v (L.write h lvl fm') (.repair keys o) = .ok (L.write h' o.lvl fm') := by
        simp only [runStep, repair, openFailsafe, laws.header_write]
        have : ¬ (v.repairChecksKey = true ∧ keys ≠ [] ∧ h.encrypt = false) := fun hx => hno hx.2
        simp only [this, if_false, hsalv, hh']
      obtain ⟨lvl', fm'', hrun, hs''⟩ := ih h' o.lvl fm' hs hv'
      refine ⟨lvl', fm'', ?_, hs''⟩
      simp only [runChain, hstep, lastHeader, Step.opts, hh']
      exact hrun
    | convert keys o =>
      simp only [Step.keys, Step.opts] at hk hh' hc hno
      obtain ⟨w, hw, h1, h2⟩ := openMla_ok laws (lvl := lvl) hs.nodup hk
      have hstep : runStep L v (L.write h lvl fm') (.convert keys o) =
          .ok (L.write h' o.lvl ((entries w).map (fun x => (x.1, x.2.2)))) := by
        simp only [runStep, convert, hw, hh']
      obtain ⟨lvl', fm'', hrun, hs''⟩ := ih h' o.lvl _ (convert_same hs h1 h2) hv'
      refine ⟨lvl', fm'', ?_, hs''⟩
      simp only [runChain, hstep, lastHeader, Step.opts, hh']
      exact hrun

/-- **C17.readback** — on an archive that holds the same files as `fm`, with fitting keys: `list`
    prints the names of `fm`, sorted; `cat` gives each file's bytes; `extract` hands exactly
    (name, bytes) to the file creation of C16; `to-tar` entries are sized with the length of the bytes
    they carry; `list -vv` shows that length and the hash of the bytes. -/
theorem readback (laws : L.Laws) (H : Bytes → Bytes) {fm fm' : FileMap} (hs : Same fm fm')
    {h : Header} {keys : List Key} (hk : KeysFit h keys) (lvl : Nat) :
    ∃ l : List Name, l.Perm (fm.map Prod.fst) ∧ l.Pairwise (fun a b => a ≤ b) ∧
      list L keys (L.write h lvl fm') = .ok l ∧
      (∀ n b, fm.lookup n = some b → cat L keys (L.write h lvl fm') n = .ok b) ∧
      extract L keys (L.write h lvl fm') = .ok (l.map (fun n => (n, content fm n))) ∧
      toTar L keys (L.write h lvl fm') =
        .ok (l.map (fun n => (n, (content fm n).length, content fm n))) ∧
      listV L H keys (L.write h lvl fm') =
        .ok (l.map (fun n => (n, (content fm n).length, H (content fm n)))) := by
  obtain ⟨w, hw, h1, h2⟩ := openMla_ok laws (lvl := lvl) hs.nodup hk
  have hcont : content fm' = content fm := by
    funext n; simp [content, hs.bytes n]
  have hent := entries_eq h1 h2
  rw [hcont] at hent
  refine ⟨sortNames w.names, (sortNames_perm _).trans (h1.trans hs.names), sortNames_sorted _, ?_, ?_, ?_, ?_, ?_⟩
  · simp [list, hw, Except.map]
  · intro n b hb
    simp [cat, hw, Except.map, h2 n, hs.bytes n, hb]
  · simp [extract, hw, Except.map, hent, List.map_map, Function.comp_def]
  · simp [toTar, hw, Except.map, hent]
  · simp [listV, hw, Except.map, hent, List.map_map, Function.comp_def]

/-- **C17.pipeline** — `create` followed by any valid chain of `repair` / `convert`: every step
    succeeds and the final archive answers `list`, `cat`, `extract`, `to-tar`, `list -vv` with the
    input files' names, bytes, sizes and hashes. -/
theorem pipeline (laws : L.Laws) (v : Variant) (H : Bytes → Bytes) (fm : FileMap)
    (hnd : (fm.map Prod.fst).Nodup) (o : Opts) (h0 : Header) (ho : o.header = .ok h0)
    (steps : List Step) (hv : ValidChain h0 steps) (keys : List Key)
    (hk : KeysFit (lastHeader h0 steps) keys) :
    ∃ raw0 rawN, create L o fm = .ok raw0 ∧ runChain L v raw0 steps = .ok rawN ∧
      L.header rawN = .ok (lastHeader h0 steps) ∧
      ∃ l : List Name, l.Perm (fm.map Prod.fst) ∧ l.Pairwise (fun a b => a ≤ b) ∧
        list L keys rawN = .ok l ∧
        (∀ n b, fm.lookup n = some b → cat L keys rawN n = .ok b) ∧
        extract L keys rawN = .ok (l.map (fun n => (n, content fm n))) ∧
        toTar L keys rawN = .ok (l.map (fun n => (n, (content fm n).length, content fm n))) ∧
        listV L H keys rawN = .ok (l.map (fun n => (n, (content fm n).length, H (content fm n)))) := by
  obtain ⟨lvl', fm'', hrun, hs⟩ := chain laws v fm steps h0 o.lvl fm (Same.refl hnd) hv
  refine ⟨L.write h0 o.lvl fm, L.write (lastHeader h0 steps) lvl' fm'', ?_, hrun, laws.header_write _ _ _, ?_⟩
  · simp [create, ho, hnd]
  · exact readback laws H hs hk lvl'

/-! ### key rules -/

def isErr {α : Type} : Except Err α → Prop
  | .error _ => True
  | .ok _ => False

theorem openMla_locked (laws : L.Laws) {h : Header} {lvl : Nat} {fm : FileMap} {keys : List Key}
    (he : h.encrypt = true) (hno : ∀ k ∈ keys, k ∉ h.recipients) :
    ∃ e, openMla L keys (L.write h lvl fm) = .error e := by
  have hc : ¬ canOpen h keys := by
    unfold canOpen
    rintro (h1 | ⟨k, hk, hr⟩)
    · rw [he] at h1; cases h1
    · exact hno k hk hr
  obtain ⟨e, hr⟩ := laws.read_locked h lvl fm keys hc
  unfold openMla
  rw [laws.header_write]
  simp only [he]
  exact ⟨e, by simp [hr]⟩

theorem openMla_unneeded (laws : L.Laws) {h : Header} {lvl : Nat} {fm : FileMap} {keys : List Key}
    (he : h.encrypt = false) (hk : keys ≠ []) :
    openMla L keys (L.write h lvl fm) = .error .config := by
  unfold openMla
  rw [laws.header_write]
  simp [he, hk]

/-- all reading sub-commands fail as soon as `open_mla_file` fails -/
theorem all_fail_of_open {keys : List Key} {raw : L.Raw} (H : Bytes → Bytes) (o : Opts) (n : Name)
    (h : ∃ e, openMla L keys raw = .error e) :
    isErr (list L keys raw) ∧ isErr (listV L H keys raw) ∧ isErr (cat L keys raw n) ∧
    isErr (extract L keys raw) ∧ isErr (toTar L keys raw) ∧ isErr (convert L keys o raw) := by
  obtain ⟨e, he⟩ := h
  simp [list, listV, cat, extract, toTar, convert, he, Except.map, isErr]

/-- **C17.keys_locked** — encrypted archive, and no key at all or only keys of non-recipients:
    `list`, `list -vv`, `cat`, `extract`, `to-tar`, `convert` and `repair` all end in an error (and an
    error result carries no output content). -/
theorem keys_locked (laws : L.Laws) (v : Variant) (H : Bytes → Bytes) (h : Header) (lvl : Nat)
    (fm : FileMap) (keys : List Key) (o : Opts) (n : Name)
    (he : h.encrypt = true) (hno : ∀ k ∈ keys, k ∉ h.recipients) :
    (isErr (list L keys (L.write h lvl fm)) ∧ isErr (listV L H keys (L.write h lvl fm)) ∧
     isErr (cat L keys (L.write h lvl fm) n) ∧ isErr (extract L keys (L.write h lvl fm)) ∧
     isErr (toTar L keys (L.write h lvl fm)) ∧ isErr (convert L keys o (L.write h lvl fm))) ∧
    isErr (repair L v keys o (L.write h lvl fm)) := by
  refine ⟨all_fail_of_open H o n (openMla_locked laws he hno), ?_⟩
  have hc : ¬ canOpen h keys := by
    unfold canOpen
    rintro (h1 | ⟨k, hk, hr⟩)
    · rw [he] at h1; cases h1
    · exact hno k hk hr
  obtain ⟨e, hs⟩ := laws.salvage_locked h lvl fm keys hc
  simp [repair, openFailsafe, laws.header_write, he, hs, isErr]

/-- **C17.keys_unneeded** — a key supplied for an archive that is NOT encrypted: `list`, `list -vv`,
    `cat`, `extract`, `to-tar`, `convert` refuse; `repair` refuses exactly when its opener has the test
    (`v.repairChecksKey`, the code since `fix: D20`); without the test (the code before that fix) it
    succeeds and writes the archive. -/
theorem keys_unneeded (laws : L.Laws) (v : Variant) (H : Bytes → Bytes) (h : Header) (lvl : Nat)
    (fm : FileMap) (hnd : (fm.map Prod.fst).Nodup) (keys : List Key) (o : Opts) (n : Name)
    (he : h.encrypt = false) (hk : keys ≠ []) :
    (isErr (list L keys (L.write h lvl fm)) ∧ isErr (listV L H keys (L.write h lvl fm)) ∧
     isErr (cat L keys (L.write h lvl fm) n) ∧ isErr (extract L keys (L.write h lvl fm)) ∧
     isErr (toTar L keys (L.write h lvl fm)) ∧ isErr (convert L keys o (L.write h lvl fm))) ∧
    (v.repairChecksKey = true → isErr (repair L v keys o (L.write h lvl fm))) ∧
    (v.repairChecksKey = false → ∀ h', o.header = .ok h' →
      repair L v keys o (L.write h lvl fm) = .ok (L.write h' o.lvl fm)) := by
  refine ⟨all_fail_of_open H o n ⟨_, openMla_unneeded laws he hk⟩, ?_, ?_⟩
  · intro hv
    simp [repair, openFailsafe, laws.header_write, he, hk, hv, isErr]
  · intro hv h' hh'
    have hs := laws.salvage_write h lvl fm keys hnd (Or.inl he)
    simp [repair, openFailsafe, laws.header_write, hv, hs, hh']

theorem toy_laws : Lib.toy.Laws where
  header_write := fun _ _ _ => rfl
  read_write := by
    intro h lvl fm keys _ hc
    refine ⟨{ names := fm.map Prod.fst, get := fun n => (fm.lookup n).map (fun b => (b.length, b)) }, ?_,
      List.Perm.refl _, fun _ => rfl⟩
    simp [Lib.toy, hc]
  salvage_write := by
    intro h lvl fm keys _ hc
    simp [Lib.toy, hc]
  read_locked := by
    intro h lvl fm keys hc
    exact ⟨.config, by simp [Lib.toy, hc]⟩
  salvage_locked := by
    intro h lvl fm keys hc
    exact ⟨.config, by simp [Lib.toy, hc]⟩

/-- THE FULL KEY CLAUSE of the property for `repair`: a key given for an unencrypted archive makes
    the command fail — for every library satisfying the laws. -/
def KeysFull (v : Variant) : Prop :=
  ∀ (L : Lib), L.Laws → ∀ (h : Header) (lvl : Nat) (fm : FileMap) (keys : List Key) (o : Opts),
    (fm.map Prod.fst).Nodup → h.encrypt = false → keys ≠ [] →
    isErr (repair L v keys o (L.write h lvl fm))

/-- **C17.keys_full_iff** — the full key clause holds exactly for the variant of `mlar` whose
    fail-safe opener has the "key provided but not used" test (the code since `fix: D20`).  In particular
    it FAILS for the code before that fix (`repairChecksKey = false`): there `mlar repair -k key` on an
    unencrypted archive succeeds. -/
theorem keys_full_iff (v : Variant) : KeysFull v ↔ v.repairChecksKey = true := by
  constructor
  · intro hfull
    cases hv : v.repairChecksKey with
    | true => rfl
    | false =>
      exfalso
      let h : Header := { compress := false, encrypt := false, recipients := [] }
      let o : Opts := { compress := false, encrypt := false, level := none, pubkeys := [] }
      have h1 := hfull Lib.toy toy_laws h 5 [([97], [1, 2, 3])] [7] o (by simp) rfl (by simp)
      have h2 := (keys_unneeded (L := Lib.toy) toy_laws v id h 5 [([97], [1, 2, 3])] (by simp) [7] o []
        rfl (by simp)).2.2 hv h rfl
      rw [h2] at h1
      exact h1
  · intro hv L laws h lvl fm keys o hnd he hk
    exact (keys_unneeded laws v id h lvl fm hnd keys o [] he hk).2.1 hv

/-- the hypotheses of `pipeline` are met by a concrete case: two files (one empty), created
    compressed+encrypted for recipients 1 and 2, repaired to a plain archive with key 2, converted to an
    encrypted one for recipient 3, read with key 3 — in the toy library -/
example :
    let fm : FileMap := [([98], [1, 2, 3]), ([97], [])]
    let o : Opts := { compress := true, encrypt := true, level := some 9, pubkeys := [1, 2] }
    let steps : List Step :=
      [.repair [2] { compress := false, encrypt := false, level := none, pubkeys := [] },
       .convert [] { compress := false, encrypt := true, level := none, pubkeys := [3] }]
    (fm.map Prod.fst).Nodup ∧ (∃ h0, o.header = .ok h0 ∧ ValidChain h0 steps ∧
      KeysFit (lastHeader h0 steps) [3]) := by
  refine ⟨by decide, ⟨_, rfl, ?_, ?_⟩⟩
  · refine ⟨⟨2, by simp [Step.keys], by simp⟩, _, rfl, ?_⟩
    refine ⟨?_, _, rfl, trivial⟩
    simp [KeysFit, Step.keys, Step.opts]
  · simp [KeysFit, lastHeader, Step.opts, Opts.header]

/-- and there the commands really give the files back (evaluation in the toy library) -/
example :
    let fm : FileMap := [([98], [1, 2, 3]), ([97], [])]
    let o : Opts := { compress := true, encrypt := true, level := some 9, pubkeys := [1, 2] }
    let steps : List Step :=
      [.repair [2] { compress := false, encrypt := false, level := none, pubkeys := [] },
       .convert [] { compress := false, encrypt := true, level := none, pubkeys := [3] }]
    (match create Lib.toy o fm with
     | .error _ => none
     | .ok raw0 => match runChain Lib.toy ⟨false⟩ raw0 steps with
       | .error _ => none
       | .ok rawN => match list Lib.toy [3] rawN, cat Lib.toy [3] rawN [98], list Lib.toy [1] rawN with
         | .ok l, .ok c, .error _ => some (l, c)
         | _, _, _ => none) = some ([[97], [98]], [1, 2, 3]) := by decide

end MlaModel.C17

/-
  C18 — Key files: generation and parsing round-trip, parsing is total.

  Model: MlaModel/Keys.lean (DER as `der-parser` reads it, PEM as the `pem` crate reads and writes it,
  the crate's five parsing entry points and its export).  All statements hold for every instance of the
  primitives (`KPrims`), every 32-byte key, every byte string where one is quantified.

    * `roundtrip`        : generated pair, DER and PEM, parses back; the public key read is the public
                           key of the private key read; PEM in any admissible layout = DER; several
                           concatenated PEM public keys parse to the same keys in order.
    * `pem_eq_der`       : for *every* byte string `der` (valid key or not) the PEM of `der` parses to
                           whatever `der` parses to — same key or same error.
    * `ed25519_private/_public` : what the OpenSSL Ed25519 forms convert to (by construction).
                           That the two results *match each other* is the birational equivalence of the
                           curve forms: NOT proved here; the harness executes it on seeds.
    * `Full` / `full_fails` / `autodetect_partial` : "PEM first, DER as fallback" misreads an exported
                           DER file whose key bytes contain a PEM frame (concrete witness), and is correct
                           whenever the file does not contain `-----BEGIN `.
    * `total`            : every entry point answers a key or an error (no third outcome in the model:
                           no partiality, no fuel that can run out unnoticed); truncations, other OIDs,
                           other tags, wrong inner length are errors.
-/
import MlaModel.Proofs.KeysArmor
import MlaModel.Proofs.KeysDer
namespace MlaModel.C18
open MlaModel.Keys

variable (P : KPrims)

/-! ### round trip -/

theorem roundtrip_der (k : Bytes) (hk : k.length = 32) :
    parsePrivDer P (exportPrivDer k) = .ok k ∧ parsePubDer P (exportPubDer k) = .ok k :=
  ⟨parsePrivDer_export P k hk, parsePubDer_export P k hk⟩

/-- the pair `generate_keypair` builds from the 32 bytes it draws: both halves parse back, and the
    public key read is the public key of the private key read -/
theorem generated_pair (L : P.Laws) (secret : Bytes) (hs : secret.length = 32) :
    ∃ s p, parsePrivDer P (keyPairOf P secret).privateDer = .ok s ∧
           parsePubDer P (keyPairOf P secret).publicDer = .ok p ∧ s = secret ∧ p = P.x25519Base s :=
  ⟨secret, P.x25519Base secret, parsePrivDer_export P secret hs,
   parsePubDer_export P _ (L.base_len secret), rfl, rfl⟩

/-- **PEM = DER**, for every byte string and every layout `pem::encode_config` can produce -/
theorem pem_eq_der (w : Nat) (hw : 0 < w) (le : Bytes) (hle : IsLe le) (der : Bytes) :
    parsePub P (pemEncodeWith w le publicTag der) = parsePubDer P der ∧
    parsePriv P (pemEncodeWith w le privateTag der) = parsePrivDer P der := by
  unfold parsePub parsePriv
  rw [pemParse_encode w hw le hle publicTag der publicTag_ok,
      pemParse_encode w hw le hle privateTag der privateTag_ok]
  simp

/-- **PEM = DER for any admissible layout** of the base64 text: any text before the BEGIN line, any
    white space after the two armor lines, a body that cleans to the base64 text and has no dash and
    no blank line -/
theorem pem_layout_eq_der (pre ws1 body ws2 der : Bytes) (hpre : ∀ c ∈ pre, c ≠ 45)
    (hws1 : ∀ c ∈ ws1, isWs c = true) (hws2 : ∀ c ∈ ws2, isWs c = true)
    (hb : BodyOk body (b64Encode der)) :
    parsePub P (pre ++ (beginMarker ++ (publicTag ++ (dashes ++ (ws1 ++ (body ++ (endMarker ++
      (publicTag ++ (dashes ++ (ws2 ++ []))))))))))
      = parsePubDer P der := by
  unfold parsePub pemParse
  rw [pemFrame_armor pre publicTag ws1 body ws2 [] _ hpre publicTag_ok.noDash hws1 hws2 hb (by simp)]
  simp only []
  rw [pemOfCaptures_armor publicTag body der publicTag_ok.ne publicTag_ok.ascii hb]
  simp

theorem roundtrip_pem (k : Bytes) (hk : k.length = 32) :
    parsePriv P (exportPrivPem k) = .ok k ∧ parsePub P (exportPubPem k) = .ok k := by
  have h := pem_eq_der P 64 (by decide) crlf (Or.inl rfl)
  exact ⟨((h (exportPrivDer k)).2).trans (parsePrivDer_export P k hk),
         ((h (exportPubDer k)).1).trans (parsePubDer_export P k hk)⟩

theorem parsePubBlocks_export (ks : List Bytes) (hk : ∀ k ∈ ks, k.length = 32) :
    parsePubBlocks P (ks.map fun k => ⟨publicTag, exportPubDer k⟩) = .ok ks := by
  induction ks with
  | nil => rfl
  | cons k ks ih =>
    have h1 := parsePubDer_export P k (hk k (by simp))
    have h2 := ih (fun x hx => hk x (by simp [hx]))
    simp [parsePubBlocks, h1, h2]

/-- **several concatenated PEM public keys** (any width, CRLF or LF, any white space between them)
    parse to the same keys in order -/
theorem many (w : Nat) (hw : 0 < w) (le : Bytes) (hle : IsLe le) (ks : List (Bytes × Bytes))
    (hk : ∀ k ∈ ks, k.1.length = 32 ∧ ∀ c ∈ k.2, isWs c = true) :
    parsePubMany P (encodeAll w le (ks.map fun k => (⟨publicTag, exportPubDer k.1⟩, k.2)))
      = .ok (ks.map (·.1)) := by
  unfold parsePubMany
  rw [pemParseMany_encodeAll w hw le hle]
  · have := parsePubBlocks_export P (ks.map (·.1)) (by
      intro k hk'
      obtain ⟨x, hx, rfl⟩ := List.mem_map.mp hk'
      exact (hk x hx).1)
    simpa [List.map_map, Function.comp_def] using this
  · intro b hb
    obtain ⟨x, hx, rfl⟩ := List.mem_map.mp hb
    exact ⟨publicTag_ok, (hk x hx).2⟩

/-- **C18.roundtrip** -/
theorem roundtrip (L : P.Laws) (secret : Bytes) (hs : secret.length = 32) :
    -- DER
    parsePrivDer P (keyPairOf P secret).privateDer = .ok secret ∧
    parsePubDer P (keyPairOf P secret).publicDer = .ok (P.x25519Base secret) ∧
    -- PEM, as exported
    parsePriv P (pemEncode privateTag (keyPairOf P secret).privateDer) = .ok secret ∧
    parsePub P (pemEncode publicTag (keyPairOf P secret).publicDer) = .ok (P.x25519Base secret) ∧
    -- PEM re-wrapped to any width with either line ending
    (∀ w le, 0 < w → IsLe le →
      parsePriv P (pemEncodeWith w le privateTag (keyPairOf P secret).privateDer) = .ok secret ∧
      parsePub P (pemEncodeWith w le publicTag (keyPairOf P secret).publicDer) = .ok (P.x25519Base secret)) := by
  have hb := L.base_len secret
  have h1 := parsePrivDer_export P secret hs
  have h2 := parsePubDer_export P _ hb
  have hw : ∀ w le, 0 < w → IsLe le →
      parsePriv P (pemEncodeWith w le privateTag (keyPairOf P secret).privateDer) = .ok secret ∧
      parsePub P (pemEncodeWith w le publicTag (keyPairOf P secret).publicDer) = .ok (P.x25519Base secret) := by
    intro w le hw hle
    have h := pem_eq_der P w hw le hle
    exact ⟨((h _).2).trans h1, ((h _).1).trans h2⟩
  exact ⟨h1, h2, (hw 64 crlf (by decide) (Or.inl rfl)).1, (hw 64 crlf (by decide) (Or.inl rfl)).2, hw⟩

/-- toy primitives with the right sizes, to show that the hypotheses are satisfiable -/
def toyPrims : KPrims :=
  ⟨fun _ => List.replicate 64 1, fun _ _ _ => List.replicate 32 2, fun _ => List.replicate 32 3,
   fun _ => List.replicate 32 9, fun _ => none⟩

theorem toyLaws : toyPrims.Laws := ⟨fun _ => rfl, fun _ => rfl, fun _ => rfl⟩

set_option maxRecDepth 100000 in
/-- the hypotheses are satisfiable, and the model computes the round trip on a concrete pair -/
example : parsePriv toyPrims (pemEncode privateTag (keyPairOf toyPrims (List.replicate 32 7)).privateDer)
    = .ok (List.replicate 32 7) := by rfl

set_option maxRecDepth 200000 in
/-- the model computes it on two concrete keys (LF line ends, 16 columns, a blank separator) -/
example : parsePubMany toyPrims (encodeAll 16 lf
      [(⟨publicTag, exportPubDer (List.replicate 32 1)⟩, [10, 32]), (⟨publicTag, exportPubDer (List.replicate 32 2)⟩, [])])
    = .ok [List.replicate 32 1, List.replicate 32 2] := by rfl

/-! ### OpenSSL Ed25519 forms (conversion by construction; the pair *match* is tested, not proved) -/

theorem ed25519_private (seed : Bytes) (hs : seed.length = 32) :
    parsePrivDer P (exportPrivDerEd seed) = .ok ((P.sha512 seed).take 32) :=
  parsePrivDer_ed P seed hs

theorem ed25519_public (pt u : Bytes) (hp : pt.length = 32) (hu : P.edToMont pt = some u) :
    parsePubDer P (exportPubDerEd pt) = .ok u := by
  rw [parsePubDer_ed P pt hp, hu]

theorem ed25519_public_off_curve (pt : Bytes) (hp : pt.length = 32) (hu : P.edToMont pt = none) :
    parsePubDer P (exportPubDerEd pt) = .error .invalidData := by
  rw [parsePubDer_ed P pt hp, hu]

/-! ### autodetection (PEM first, DER as fallback) on DER files -/

/-- the full statement for the autodetecting entry point: every exported DER private key reads back -/
def Full : Prop := ∀ (P : KPrims) (k : Bytes), k.length = 32 → parsePriv P (exportPrivDer k) = .ok k

/-- `-----BEGIN X----------END X-----`: 32 bytes that are a complete PEM frame -/
def frameKey : Bytes :=
  [45, 45, 45, 45, 45, 66, 69, 71, 73, 78, 32, 88, 45, 45, 45, 45, 45,
   45, 45, 45, 45, 45, 69, 78, 68, 32, 88, 45, 45, 45, 45, 45]

/-- **the full statement fails**: the DER file of `frameKey` is answered `InvalidPEMTag` -/
theorem frameKey_misread (P : KPrims) :
    parsePriv P (exportPrivDer frameKey) = .error .invalidPemTag ∧
    parsePub P (exportPubDer frameKey) = .error .invalidPemTag ∧
    parsePrivDer P (exportPrivDer frameKey) = .ok frameKey := by
  refine ⟨?_, ?_, parsePrivDer_export P frameKey (by decide)⟩
  · have : pemParse (exportPrivDer frameKey) = some ⟨[88], []⟩ := by decide
    simp [parsePriv, this, privateTag]
  · have : pemParse (exportPubDer frameKey) = some ⟨[88], []⟩ := by decide
    simp [parsePub, this, publicTag]

theorem full_fails : ¬ Full := by
  intro h
  have h1 := h ⟨id, fun _ _ _ => [], id, id, fun _ => none⟩ frameKey (by decide)
  rw [(frameKey_misread _).1] at h1
  exact absurd h1 (by simp)

/-- **partial**: a DER file that does not contain `-----BEGIN ` is read as DER -/
theorem autodetect_partial (b : Bytes) (h : ¬ beginMarker <:+: b) :
    parsePriv P b = parsePrivDer P b ∧ parsePub P b = parsePubDer P b := by
  have : pemParse b = none := by
    unfold pemParse pemFrame
    rw [readUntil_none_of_not_infix beginMarker b (by decide) h]
  simp [parsePriv, parsePub, this]

theorem roundtrip_der_autodetect_partial (k : Bytes) (hk : k.length = 32)
    (h : ¬ beginMarker <:+: exportPrivDer k) : parsePriv P (exportPrivDer k) = .ok k := by
  rw [(autodetect_partial P _ h).1]; exact parsePrivDer_export P k hk

/-- the hypothesis is satisfiable (the pinned key of `mlar keygen -s TESTSEED`) -/
example : ¬ beginMarker <:+: exportPrivDer
    [94, 121, 194, 104, 155, 90, 60, 64, 82, 240, 66, 106, 58, 170, 219, 60, 118, 22, 29, 161, 99, 243,
     195, 174, 36, 134, 238, 189, 226, 45, 50, 34] := by decide

/-! ### totality and rejection -/

/-- **C18.total**: every entry point answers a key (list) or one of five error classes -/
theorem total (b : Bytes) :
    ((∃ k, parsePrivDer P b = .ok k) ∨ ∃ e, parsePrivDer P b = .error e) ∧
    ((∃ k, parsePubDer P b = .ok k) ∨ ∃ e, parsePubDer P b = .error e) ∧
    ((∃ k, parsePriv P b = .ok k) ∨ ∃ e, parsePriv P b = .error e) ∧
    ((∃ k, parsePub P b = .ok k) ∨ ∃ e, parsePub P b = .error e) ∧
    ((∃ ks, parsePubMany P b = .ok ks) ∨ ∃ e, parsePubMany P b = .error e) := by
  refine ⟨?_, ?_, ?_, ?_, ?_⟩
  · cases h : parsePrivDer P b <;> simp
  · cases h : parsePubDer P b <;> simp
  · cases h : parsePriv P b <;> simp
  · cases h : parsePub P b <;> simp
  · cases h : parsePubMany P b <;> simp

/-- an accepted private key has 32 bytes -/
theorem accepted_private_length (L : P.Laws) (b k : Bytes) (h : parsePrivDer P b = .ok k) :
    k.length = 32 := by
  unfold parsePrivDer at h
  cases hrs : readPrivStruct b with
  | none => rw [hrs] at h; exact absurd h (by simp)
  | some od =>
    obtain ⟨oid, d⟩ := od
    rw [hrs] at h
    match d, h with
    | [], h => exact absurd h (by simp)
    | [_], h => exact absurd h (by simp)
    | t :: l :: key, h =>
      simp only at h
      split at h
      · exact absurd h (by simp)
      · rename_i hc
        simp only [List.length_cons, ne_eq, Bool.or_eq_true, decide_eq_true_eq, not_or,
          Decidable.not_not] at hc
        split at h
        · simp only [Except.ok.injEq] at h
          subst h
          have := L.sha512_len key
          simp only [List.length_take, this]; decide
        · split at h
          · simp only [Except.ok.injEq] at h
            subst h; omega
          · exact absurd h (by simp)

/-- the empty input and every proper prefix of an exported file are rejected -/
theorem truncated_private (k : Bytes) (hk : k.length = 32) (n : Nat) (hn : n < 48) :
    ∃ e, parsePrivDer P ((exportPrivDer k).take n) = .error e := by
  have hlen : (exportPrivDer k).length = 48 := by simp [exportPrivDer, privPrefix, hk]
  suffices h : readPrivStruct ((exportPrivDer k).take n) = none by
    exact ⟨.der, by simp [parsePrivDer, h]⟩
  match n, hn with
  | 0, _ => rfl
  | 1, _ => simp [exportPrivDer, privPrefix, readPrivStruct, readTlv, readHdr]
  | n + 2, hn =>
    have ht : (exportPrivDer k).take (n + 2)
        = 0x30 :: 0x2e :: ((exportPrivDer k).drop 2).take n := by
      simp [exportPrivDer, privPrefix]
    have hs : (((exportPrivDer k).drop 2).take n).length < 46 := by
      simp only [List.length_take, List.length_drop, hlen]; omega
    rw [ht]
    unfold readPrivStruct readTlv
    rw [readHdr_short 0x30 0x2e _ (by decide) (by decide)]
    simp [takeN_short 46 _ hs]

theorem truncated_public (k : Bytes) (hk : k.length = 32) (n : Nat) (hn : n < 44) :
    ∃ e, parsePubDer P ((exportPubDer k).take n) = .error e := by
  have hlen : (exportPubDer k).length = 44 := by simp [exportPubDer, pubPrefix, hk]
  suffices h : readPubStruct ((exportPubDer k).take n) = none by
    exact ⟨.der, by simp [parsePubDer, h]⟩
  match n, hn with
  | 0, _ => rfl
  | 1, _ => simp [exportPubDer, pubPrefix, readPubStruct, readTlv, readHdr]
  | n + 2, hn =>
    have ht : (exportPubDer k).take (n + 2)
        = 0x30 :: 0x2a :: ((exportPubDer k).drop 2).take n := by
      simp [exportPubDer, pubPrefix]
    have hs : (((exportPubDer k).drop 2).take n).length < 42 := by
      simp only [List.length_take, List.length_drop, hlen]; omega
    rw [ht]
    unfold readPubStruct readTlv
    rw [readHdr_short 0x30 0x2a _ (by decide) (by decide)]
    simp [takeN_short 42 _ hs]

/-- any other 3-byte OID in the two shapes: `UnknownOid` -/
theorem other_oid (o0 o1 o2 : UInt8) (k : Bytes) (hk : k.length = 32)
    (h1 : [o0, o1, o2] ≠ oidEd) (h2 : [o0, o1, o2] ≠ oidX) :
    parsePrivDer P ([0x30, 0x2e, 0x02, 0x01, 0x00, 0x30, 0x05, 0x06, 0x03, o0, o1, o2, 0x04, 0x22, 0x04, 0x20] ++ k)
      = .error .unknownOid ∧
    parsePubDer P ([0x30, 0x2a, 0x30, 0x05, 0x06, 0x03, o0, o1, o2, 0x03, 0x21, 0x00] ++ k)
      = .error .unknownOid :=
  ⟨parsePrivDer_unknownOid P o0 o1 o2 k hk h1 h2, parsePubDer_unknownOid P o0 o1 o2 k hk h1 h2⟩

theorem readHdr_tag (t : UInt8) (rest : Bytes) (h : Hdr) (r : Bytes) (h31 : t.toNat % 32 ≠ 31)
    (hh : readHdr (t :: rest) = some (h, r)) : h.tag = t.toNat % 32 := by
  unfold readHdr at hh
  simp only [h31, if_false] at hh
  cases rest with
  | nil => simp at hh
  | cons l r2 =>
    simp only at hh
    split at hh
    · simp only [Option.some.injEq, Prod.mk.injEq] at hh; rw [← hh.1]
    · split at hh
      · exact absurd hh (by simp)
      · split at hh
        · exact absurd hh (by simp)
        · split at hh
          · exact absurd hh (by simp)
          · split at hh
            · exact absurd hh (by simp)
            · simp only [Option.some.injEq, Prod.mk.injEq] at hh; rw [← hh.1]

/-- an outer element whose tag number is not 16 (SEQUENCE) is rejected, whatever follows -/
theorem other_outer_tag (t : UInt8) (rest : Bytes) (h31 : t.toNat % 32 ≠ 31) (h16 : t.toNat % 32 ≠ 16) :
    parsePrivDer P (t :: rest) = .error .der ∧ parsePubDer P (t :: rest) = .error .der := by
  have h : readTlv 16 (t :: rest) = none := by
    unfold readTlv
    cases hr : readHdr (t :: rest) with
    | none => rfl
    | some hr' =>
      obtain ⟨h, r⟩ := hr'
      have := readHdr_tag t rest h r h31 hr
      simp [this, h16]
  simp [parsePrivDer, parsePubDer, readPrivStruct, readPubStruct, h]

/-- a PEM block with another label is refused (`InvalidPEMTag`), whatever it contains -/
theorem other_pem_tag (w : Nat) (hw : 0 < w) (le : Bytes) (hle : IsLe le) (tag der : Bytes)
    (htag : TagOk tag) (hne : tag ≠ publicTag) :
    parsePub P (pemEncodeWith w le tag der) = .error .invalidPemTag := by
  unfold parsePub
  rw [pemParse_encode w hw le hle tag der htag]
  simp [hne]

end MlaModel.C18

/-
  C02 — soundness of repair (`ArchiveFailSafeReader::convert_to_archive`, `Repair.convert`).

  Setting: `ops` is an accepted op sequence ending with `finalize` (hypotheses of `C01.blocks`),
  `stream` the plaintext it emitted.  The fail-safe layers deliver `d`: any truncation of the
  stream (`d <+: stream`) or the whole stream followed by anything (`stream <+: d`), and stop with
  or without an error (`endErr`).  Let `o := Repair.convert P H utf8 d endErr`.

    * `master`    : the exact description of `o` in terms of the block list `nb` of the stream:
                    repair sees `cutBlocks nb (min d.length body.length)` — the whole blocks inside
                    `d` plus, if `d` ends inside the payload of a content block, that block with the
                    shorter payload.
    * `accepted`  : (a) every call `o.ops` makes to the output writer is accepted, the sequence ends
                    with `finalize`, every op is well formed — so C01 applies to the repaired archive
                    (`readable`).
    * `sound`     : (b) every file of the output is a file of the original, with a prefix of its
                    content — all of it unless the file is reported unfinished.
    * `names_nodup` : (c) output names are pairwise distinct.
    * `eoad_complete` : (d) if repair reports `EndOfOriginalArchiveData` the output has exactly the
                    files of the original, same names, same order, same content, none unfinished.
-/
import MlaModel.Theorems.C01
import MlaModel.Proofs.Repair
namespace MlaModel.C02
open MlaModel

/-- what the layers may deliver: a truncation of the stream, or the stream followed by junk -/
def Delivered (stream d : Bytes) : Prop := d <+: stream ∨ stream <+: d

theorem cutBlocks_min (bs : List Block) (k : Nat) :
    cutBlocks bs (min k (encodeAll bs).length) = cutBlocks bs k := by
  by_cases h : k ≤ (encodeAll bs).length
  · rw [Nat.min_eq_left h]
  · rw [Nat.min_eq_right (by omega), cutBlocks_full _ _ (Nat.le_refl _),
      cutBlocks_full _ _ (by omega)]

/-- a delivered string is a cut of the block part, or the block part, the marker and a rest -/
theorem delivered_cases {body tail d : Bytes} {t : UInt8} (hd : Delivered (body ++ t :: tail) d) :
    (d.length ≤ body.length ∧ d = body.take d.length) ∨
    (body.length < d.length ∧ ∃ rest, d = body ++ t :: rest) := by
  by_cases hl : d.length ≤ body.length
  · left
    refine ⟨hl, ?_⟩
    rcases hd with hd | hd
    · have := List.prefix_iff_eq_take.1 hd
      rw [List.take_append_of_le_length hl] at this
      exact this
    · have := hd.length_le
      simp at this; omega
  · right
    refine ⟨by omega, ?_⟩
    rcases hd with hd | hd
    · have h1 := List.prefix_iff_eq_take.1 hd
      rw [List.take_append, List.take_of_length_le (by omega)] at h1
      obtain ⟨m, hm⟩ : ∃ m, d.length - body.length = m + 1 := ⟨d.length - body.length - 1, by omega⟩
      rw [hm, List.take_succ_cons] at h1
      exact ⟨_, h1⟩
    · obtain ⟨x, hx⟩ := hd
      exact ⟨tail ++ x, by rw [← hx]; simp⟩

section
variable (P : Params) (H : Bytes → Bytes) (utf8 : Bytes → Bool) (ops : List Op)

/-- **C02.master** — the exact result of repair on any delivered string, in terms of the block list
    of the genuine stream. -/
theorem master
    (hH : ∀ b, (H b).length = hashLen) (hwf : ∀ op ∈ ops, op.WF utf8)
    (hacc : AllAccepted P H ops) (hfin : ops.getLast? = some .finalize)
    (hlen : ops.length < U64) (hpos : (Writer.run P H ops).2.2.length < U64) :
    ∃ (nb : List Block) (pf : PSt),
      (Writer.run P H ops).2.2 =
        encodeAll nb ++ tEoad :: encFooter (Writer.run P H ops).1.names (Writer.run P H ops).1.info ∧
      protoRun H ⟨[], []⟩ nb = some pf ∧ pf.opened = [] ∧
      specOf ops = pf.names.map (fun q => (q.1, contentOf q.2 nb)) ∧
      ∀ (d : Bytes) (endErr : Bool), Delivered (Writer.run P H ops).2.2 d →
        ∃ p'', protoRun H ⟨[], []⟩ (cutBlocks nb d.length) = some p'' ∧
          ((Repair.convert P H utf8 d endErr).stop = .eoad ↔ (encodeAll nb).length < d.length) ∧
          AllAccepted P H (Repair.convert P H utf8 d endErr).ops ∧
          (Repair.convert P H utf8 d endErr).ops.getLast? = some .finalize ∧
          (∀ op ∈ (Repair.convert P H utf8 d endErr).ops, op.WF utf8) ∧
          specOf (Repair.convert P H utf8 d endErr).ops =
            p''.names.map (fun q => (q.1, contentOf q.2 (cutBlocks nb d.length))) ∧
          (∀ n id, (n, id) ∈ p''.names →
            (n ∈ (Repair.convert P H utf8 d endErr).unfinished ↔ alookup id p''.opened ≠ none)) ∧
          ((Repair.convert P H utf8 d endErr).unfinished = [] ↔ p''.opened = []) := by
  obtain ⟨s', nb, hinv, hop, _, hnames, hinfo, hstream, hnid⟩ :=
    C01.setup P H utf8 ops hH hwf hacc hfin
  have hstream' : (Writer.run P H ops).2.2 =
      encodeAll nb ++ tEoad :: encFooter (Writer.run P H ops).1.names (Writer.run P H ops).1.info := by
    rw [hstream, hnames, hinfo]; rfl
  rw [hstream'] at hpos
  have hoks := C01.blocks_wf hinv (by omega) (by simp only [List.length_append] at hpos; omega)
  have hwfb : ∀ b ∈ nb, b.WF P utf8 := fun b hb => (hoks b hb).1
  have hproto : protoRun H ⟨[], []⟩ nb = some ⟨s'.names, s'.opened⟩ := hinv.proto
  refine ⟨nb, ⟨s'.names, s'.opened⟩, hstream', hproto, hop, C01.specOf_eq hinv, ?_⟩
  intro d endErr hd
  rw [hstream'] at hd
  rcases delivered_cases hd with ⟨hl, hde⟩ | ⟨hl, rest, hde⟩
  · -- a cut inside the block part
    obtain ⟨st', stop, p'', hloop, hne, hrun, hrinv⟩ :=
      loop_cut (P := P) (H := H) (utf8 := utf8) endErr nb [] ⟨[], []⟩ {} ⟨s'.names, s'.opened⟩
        d.length (d.length + 1) (RInv.init P H utf8) PSt.WF.init hwfb hproto hl (by omega)
    rw [← hde] at hloop
    simp only [List.nil_append] at hrinv
    obtain ⟨c1, c2, c3, c4, c5, c6, c7⟩ :=
      convert_of_loop hrinv (protoRun_wf PSt.WF.init hrun) d endErr stop hloop
    refine ⟨p'', hrun, ?_, c2, c3, c4, c5, c6, c7⟩
    rw [c1]
    constructor
    · intro h; exact absurd h hne
    · intro h; omega
  · -- the whole block part and the end-of-archive marker
    have hnl := C01.length_le_encodeAll nb
    obtain ⟨st', hloop, hrinv⟩ :=
      loop_full (P := P) (H := H) (utf8 := utf8) endErr rest nb [] ⟨[], []⟩ {}
        ⟨s'.names, s'.opened⟩ (d.length + 1) (RInv.init P H utf8) PSt.WF.init hwfb hproto
        (by omega)
    rw [← hde] at hloop
    simp only [List.nil_append] at hrinv
    obtain ⟨c1, c2, c3, c4, c5, c6, c7⟩ :=
      convert_of_loop hrinv (protoRun_wf PSt.WF.init hproto) d endErr .eoad hloop
    have hcut : cutBlocks nb d.length = nb := cutBlocks_full nb _ (by omega)
    rw [hcut]
    refine ⟨_, hproto, ?_, c2, c3, c4, c5, c6, c7⟩
    rw [c1]
    exact ⟨fun _ => hl, fun _ => rfl⟩

variable (hH : ∀ b, (H b).length = hashLen) (hwf : ∀ op ∈ ops, op.WF utf8)
  (hacc : AllAccepted P H ops) (hfin : ops.getLast? = some .finalize)
  (hlen : ops.length < U64) (hpos : (Writer.run P H ops).2.2.length < U64)
include hH hwf hacc hfin hlen hpos

/-- **C02 (a)** — the calls repair makes to the output writer are all accepted, end with
    `finalize`, and are well formed. -/
theorem accepted (d : Bytes) (endErr : Bool) (hd : Delivered (Writer.run P H ops).2.2 d) :
    AllAccepted P H (Repair.convert P H utf8 d endErr).ops ∧
    (Repair.convert P H utf8 d endErr).ops.getLast? = some .finalize ∧
    (∀ op ∈ (Repair.convert P H utf8 d endErr).ops, op.WF utf8) := by
  obtain ⟨nb, pf, _, _, _, _, hall⟩ := master P H utf8 ops hH hwf hacc hfin hlen hpos
  obtain ⟨p'', _, _, c2, c3, c4, _⟩ := hall d endErr hd
  exact ⟨c2, c3, c4⟩

/-- so C01 applies to the repaired archive (as long as it, too, fits the u64 fields): it opens and
    reads back `specOf o.ops` -/
theorem readable (d : Bytes) (endErr : Bool) (hd : Delivered (Writer.run P H ops).2.2 d)
    (hlen' : (Repair.convert P H utf8 d endErr).ops.length < U64)
    (hpos' : (Writer.run P H (Repair.convert P H utf8 d endErr).ops).2.2.length < U64) :
    let oops := (Repair.convert P H utf8 d endErr).ops
    let st := (Writer.run P H oops).1
    let stream := (Writer.run P H oops).2.2
    Reader.listFiles st.index = (specOf oops).map (·.1) ∧
    ∀ name content, (name, content) ∈ specOf oops → ∀ n, 0 < n →
      Reader.getFile P utf8 stream st.index name n = .ok content ∧
      Reader.getSize st.index name = .ok content.length ∧
      Reader.getHash P utf8 stream st.index name = .ok (H content) := by
  obtain ⟨h1, h2, h3⟩ := accepted P H utf8 ops hH hwf hacc hfin hlen hpos d endErr hd
  exact C01.blocks P H utf8 _ hH h3 h1 h2 hlen' hpos'

/-- **C02 (b)** — every recovered file is an original file with a prefix of its content, and all of
    its content unless the file is reported unfinished. -/
theorem sound (d : Bytes) (endErr : Bool) (hd : Delivered (Writer.run P H ops).2.2 d) :
    ∀ name c', (name, c') ∈ specOf (Repair.convert P H utf8 d endErr).ops →
      ∃ c, (name, c) ∈ specOf ops ∧ c' <+: c ∧
        (name ∉ (Repair.convert P H utf8 d endErr).unfinished → c' = c) := by
  obtain ⟨nb, pf, _, hproto, _, hspec, hall⟩ := master P H utf8 ops hH hwf hacc hfin hlen hpos
  obtain ⟨p'', hrun, _, _, _, _, c5, c6, _⟩ := hall d endErr hd
  intro name c' hmem
  rw [c5] at hmem
  obtain ⟨q, hq, hqe⟩ := List.mem_map.1 hmem
  simp only [Prod.mk.injEq] at hqe
  obtain ⟨rfl, rfl⟩ := hqe
  obtain ⟨p3, h3, hpre⟩ := cut_run d.length hproto
  rw [hrun] at h3
  simp only [Option.some.injEq] at h3
  subst h3
  have hq' : q ∈ pf.names := hpre.subset hq
  refine ⟨contentOf q.2 nb, ?_, cut_content_prefix _ _ _, ?_⟩
  · rw [hspec]; exact List.mem_map.2 ⟨q, hq', rfl⟩
  · intro hnot
    have hw'' := protoRun_wf PSt.WF.init hrun
    have hclosed : alookup q.2 p''.opened = none := by
      cases hc : alookup q.2 p''.opened with
      | none => rfl
      | some v =>
        exfalso; apply hnot
        exact (c6 q.1 q.2 hq).2 (by rw [hc]; simp)
    exact cut_closed d.length PSt.WF.init hproto hrun (hw''.id_lt (n := q.1) hq) hclosed

/-- **C02 (c)** — the names of the output are pairwise distinct. -/
theorem names_nodup (d : Bytes) (endErr : Bool) (hd : Delivered (Writer.run P H ops).2.2 d) :
    ((specOf (Repair.convert P H utf8 d endErr).ops).map (·.1)).Nodup := by
  obtain ⟨nb, pf, _, _, _, _, hall⟩ := master P H utf8 ops hH hwf hacc hfin hlen hpos
  obtain ⟨p'', hrun, _, _, _, _, c5, _, _⟩ := hall d endErr hd
  rw [c5, List.map_map]
  exact (protoRun_wf PSt.WF.init hrun).nodup

/-- **C02 (d)** — if the loop stopped on the end-of-archive marker, the output has exactly the files
    of the original (same names, same order, same content) and none is unfinished, i.e. the status
    is `EndOfOriginalArchiveData`. -/
theorem eoad_complete (d : Bytes) (endErr : Bool) (hd : Delivered (Writer.run P H ops).2.2 d)
    (hstop : (Repair.convert P H utf8 d endErr).stop = .eoad) :
    specOf (Repair.convert P H utf8 d endErr).ops = specOf ops ∧
    (Repair.convert P H utf8 d endErr).unfinished = [] := by
  obtain ⟨nb, pf, _, hproto, hopn, hspec, hall⟩ := master P H utf8 ops hH hwf hacc hfin hlen hpos
  obtain ⟨p'', hrun, c1, _, _, _, c5, _, c7⟩ := hall d endErr hd
  have hl := c1.1 hstop
  have hcut : cutBlocks nb d.length = nb := cutBlocks_full nb _ (by omega)
  rw [hcut, hproto] at hrun
  simp only [Option.some.injEq] at hrun
  subst hrun
  rw [hcut] at c5
  exact ⟨by rw [c5, hspec], c7.2 hopn⟩

end

/-! ### Non-vacuity: the example stream of C01 (427 bytes; the first content block of file `a` has
    its header at bytes 36–52 and its payload `[1, 2]` at 53–54), cut inside a header, inside a
    payload (with a read error), at a block boundary, and later. -/

open C01 in
set_option maxRecDepth 8192 in
example :
    let stream := (Writer.run Params.prod exH exOps).2.2
    let o40 := Repair.convert Params.prod exH (fun _ => true) (stream.take 40) false
    let o54 := Repair.convert Params.prod exH (fun _ => true) (stream.take 54) true
    let o55 := Repair.convert Params.prod exH (fun _ => true) (stream.take 55) false
    (o40.ops = [.start [97], .start [98], .end_ 0, .end_ 1, .finalize] ∧
      o40.unfinished = [[97], [98]] ∧ o40.stop = .eofNextBlock) ∧
    (o54.ops = [.start [97], .start [98], .append 0 1 [1], .end_ 0, .end_ 1, .finalize] ∧
      o54.unfinished = [[97], [98]] ∧ o54.stop = .errorInFile [97]) ∧
    (o55.ops = [.start [97], .start [98], .append 0 2 [1, 2], .end_ 0, .end_ 1, .finalize] ∧
      o55.unfinished = [[97], [98]] ∧ o55.stop = .eofNextBlock) :=
  ⟨⟨rfl, rfl, rfl⟩, ⟨rfl, rfl, rfl⟩, ⟨rfl, rfl, rfl⟩⟩

open C01 in
set_option maxRecDepth 8192 in
/-- 200 bytes: file `c` (added in one call) is complete, `a` and `b` are unfinished -/
example :
    let o := Repair.convert Params.prod exH (fun _ => true)
      ((Writer.run Params.prod exH exOps).2.2.take 200) false
    specOf o.ops = [([97], [1, 2, 7]), ([98], [9]), ([99], [5, 6])] ∧
      o.unfinished = [[97], [98]] ∧ o.status = "UnfinishedFiles:UnexpectedEOFOnNextBlock" :=
  ⟨rfl, rfl, by decide⟩

open C01 in
/-- the theorems apply to every cut of the example -/
example (k : Nat) (endErr : Bool) :
    AllAccepted Params.prod exH
      (Repair.convert Params.prod exH (fun _ => true)
        ((Writer.run Params.prod exH exOps).2.2.take k) endErr).ops :=
  (accepted Params.prod exH (fun _ => true) exOps exH_len exOps_wf exOps_accepted exOps_last
    exOps_len exOps_pos _ endErr (Or.inl (List.take_prefix _ _))).1

open C01 in
example (k : Nat) (endErr : Bool) (name c' : Bytes)
    (h : (name, c') ∈ specOf (Repair.convert Params.prod exH (fun _ => true)
        ((Writer.run Params.prod exH exOps).2.2.take k) endErr).ops) :
    ∃ c, (name, c) ∈ specOf exOps ∧ c' <+: c :=
  let ⟨c, h1, h2, _⟩ := sound Params.prod exH (fun _ => true) exOps exH_len exOps_wf exOps_accepted
    exOps_last exOps_len exOps_pos _ endErr (Or.inl (List.take_prefix _ _)) name c' h
  ⟨c, h1, h2⟩

end MlaModel.C02

/-
  C16 — The command-line extractor never writes outside the output directory.

  Over `MlaModel.Cli` (path decision of `mlar extract`, abstract file system, both extraction forms,
  both OS-error policies):
    * `inside`          : the path `create_file` opens is none, or `out ++ cs` with `cs ≠ []` and every
                          component a normal directory-entry name;
    * `dotdot_refused`  : a ".." component anywhere ⇒ never created;
    * `frame`           : FILE-SYSTEM LEVEL — whatever the archive, form, matcher and policy, completed or
                          aborted: every path not strictly below `out` keeps exactly the node it had;
    * `member`          : an isolated member (no "..", representable, no other member's normalised path
                          prefix-related to its own) ends at `out/norm(name)` with exactly its content in
                          both forms — when OS errors are skipped, or when every member is isolated;
    * `benign`          : all members isolated ⇒ both forms, either policy: status 0 and the files below
                          `out` are EXACTLY `out/norm(name) ↦ content`;
    * `Full`, `full_skip`, `full_abort_fails`, `member_partial` : the second clause of the property with
                          arbitrary OTHER members holds for the `.skip` policy (the code since fix D18) and
                          is refuted for `.abort` (the code before it) by a concrete witness.
  OS facts are assumptions: the output directory is canonical and holds no symbolic links (then a
  lexically-inside path is inside); what the OS can represent is a parameter (`OS`).
-/
import MlaModel.Cli
namespace MlaModel.C16
open MlaModel MlaModel.Cli

/-! ### Part A: the decision (`get_extracted_path`, `create_file`) -/

theorem splitSlash_ne_nil (s : Bytes) : splitSlash s ≠ [] := by
  induction s with
  | nil => simp [splitSlash]
  | cons b bs ih =>
    unfold splitSlash
    split
    · simp
    · split <;> simp

theorem splitSlash_noSlash (s : Bytes) : ∀ p ∈ splitSlash s, (47 : UInt8) ∉ p := by
  induction s with
  | nil => simp [splitSlash]
  | cons b bs ih =>
    unfold splitSlash
    split
    · intro p hp
      simp only [List.mem_cons] at hp
      rcases hp with rfl | hp
      · simp
      · exact ih p hp
    · rename_i hb
      split
      · intro p hp
        simp only [List.mem_cons, List.not_mem_nil, or_false] at hp
        subst hp
        simp [Ne.symm hb]
      · rename_i p0 ps heq
        intro p hp
        simp only [List.mem_cons] at hp
        rcases hp with rfl | hp
        · have := ih p0 (by rw [heq]; simp)
          simp [Ne.symm hb, this]
        · exact ih p (by rw [heq]; simp [hp])

theorem pieceComp_normal {p c : Bytes} (h : pieceComp p = some (.normal c)) :
    c = p ∧ p ≠ [] ∧ p ≠ [46] ∧ p ≠ [46, 46] := by
  unfold pieceComp at h
  split at h
  · cases h
  · split at h
    · cases h
    · split at h
      · cases h
      · simp only [Option.some.injEq, Comp.normal.injEq] at h
        exact ⟨h.symm, by assumption, by assumption, by assumption⟩

theorem filterMap_normal {ps : List Bytes} {c : Bytes} (hns : ∀ p ∈ ps, (47 : UInt8) ∉ p)
    (h : Comp.normal c ∈ ps.filterMap pieceComp) : NormalComp c := by
  rw [List.mem_filterMap] at h
  obtain ⟨p, hp, hpc⟩ := h
  obtain ⟨rfl, h1, h2, h3⟩ := pieceComp_normal hpc
  exact ⟨h1, h2, h3, hns _ hp⟩

/-- every `Normal` component `Path::components` yields is a genuine directory-entry name -/
theorem components_normal {s c : Bytes} (h : Comp.normal c ∈ components s) : NormalComp c := by
  unfold components at h
  have hns := splitSlash_noSlash s
  dsimp only at h
  split at h
  · simp only [List.mem_cons, reduceCtorEq, false_or] at h
    exact filterMap_normal hns h
  · split at h
    · simp only [List.mem_cons, reduceCtorEq, false_or] at h
      exact filterMap_normal (fun p hp => hns p (List.mem_of_mem_tail hp)) h
    · exact filterMap_normal hns h

theorem relOf_mem {cs : List Comp} {r : List Bytes} (h : relOf cs = some r) :
    ∀ c ∈ r, Comp.normal c ∈ cs := by
  induction cs generalizing r with
  | nil => simp [relOf] at h; subst h; simp
  | cons x xs ih =>
    cases x with
    | parentDir => simp [relOf] at h
    | rootDir => simp only [relOf] at h; intro c hc; exact List.mem_cons_of_mem _ (ih h c hc)
    | curDir => simp only [relOf] at h; intro c hc; exact List.mem_cons_of_mem _ (ih h c hc)
    | normal p =>
      simp only [relOf, Option.map_eq_some_iff] at h
      obtain ⟨r', hr', rfl⟩ := h
      intro c hc
      simp only [List.mem_cons] at hc
      rcases hc with rfl | hc
      · simp
      · exact List.mem_cons_of_mem _ (ih hr' c hc)

theorem norm_normal {name : Bytes} {r : List Bytes} (h : norm name = some r) :
    ∀ c ∈ r, NormalComp c :=
  fun c hc => components_normal (relOf_mem h c hc)

theorem not_isPrefixOf_dropLast (out : PathC) (h : out ≠ []) : out.isPrefixOf out.dropLast = false := by
  cases hb : out.isPrefixOf out.dropLast with
  | false => rfl
  | true =>
    rw [List.isPrefixOf_iff_prefix] at hb
    have := hb.length_le
    simp only [List.length_dropLast] at this
    have : 0 < out.length := List.length_pos_iff.mpr h
    omega

/-- `create_file` opens `p` exactly when the name has no ".." and at least one normal component;
    `p` is then the output directory followed by the normal components. -/
theorem createPath_eq (out : PathC) (name : Bytes) :
    createPath out name =
      match norm name with
      | none => none
      | some [] => none
      | some (c :: cs) => some (out ++ c :: cs) := by
  unfold createPath getExtractedPath
  cases hn : norm name with
  | none => simp
  | some r =>
    cases r with
    | nil =>
      simp only [Option.map_some, List.append_nil]
      unfold parentOf
      by_cases hne : out = []
      · simp [hne]
      · simp [hne, not_isPrefixOf_dropLast out hne]
    | cons c cs =>
      simp only [Option.map_some]
      unfold parentOf
      have hne : out ++ c :: cs ≠ [] := by simp
      simp only [hne, if_false]
      have : out.isPrefixOf (out ++ c :: cs).dropLast = true := by
        rw [List.isPrefixOf_iff_prefix, List.dropLast_append_of_ne_nil (by simp)]
        exact List.prefix_append _ _
      simp

/-- **C16.inside** — for every member name and every output directory, the path `create_file` opens is
    either none (member skipped) or the output directory followed by a NON-EMPTY list of components
    each of which is a normal directory-entry name: non-empty, not ".", not "..", without '/'. -/
theorem inside (out : PathC) (name : Bytes) :
    createPath out name = none ∨
    ∃ cs, cs ≠ [] ∧ createPath out name = some (out ++ cs) ∧ ∀ c ∈ cs, NormalComp c := by
  rw [createPath_eq]
  cases hn : norm name with
  | none => simp
  | some r =>
    cases r with
    | nil => simp
    | cons c cs =>
      right
      exact ⟨c :: cs, by simp, rfl, norm_normal hn⟩

/-- a name with a parent-directory component anywhere is never created -/
theorem dotdot_refused (out : PathC) (name : Bytes) (h : Comp.parentDir ∈ components name) :
    createPath out name = none := by
  rw [createPath_eq]
  have : norm name = none := by
    unfold norm
    generalize components name = cs at h
    induction cs with
    | nil => simp at h
    | cons x xs ih =>
      cases x with
      | parentDir => rfl
      | rootDir => simp only [relOf]; exact ih (by simpa using h)
      | curDir => simp only [relOf]; exact ih (by simpa using h)
      | normal p => simp only [relOf]; rw [ih (by simpa using h)]; rfl
  rw [this]

-- the hypotheses of `inside` are none; its two outcomes both occur:
example : createPath [[116], [111]] [47, 97, 47, 46, 47, 98, 47] = some [[116], [111], [97], [98]] := by decide
example : createPath [[116], [111]] [97, 47, 46, 46, 47, 98] = none := by decide
example : createPath [[116], [111]] [47, 46, 47] = none := by decide

/-! ### Part B: nothing outside the output directory is touched (file-system level) -/

/-- strictly below the output directory -/
def Below (out q : PathC) : Prop := ∃ cs, cs ≠ [] ∧ q = out ++ cs

/-- the output directory exists: it and everything above it are directories (it was created and
    canonicalised by `extract` before any member is looked at) -/
def WF (out : PathC) (fs : FS) : Prop := ∀ q, q <+: out → fs q = some .dir

theorem not_below_of_prefix {out q : PathC} (h : q <+: out) : ¬ Below out q := by
  rintro ⟨cs, hcs, rfl⟩
  have := h.length_le
  simp only [List.length_append] at this
  have : 0 < cs.length := List.length_pos_iff.mpr hcs
  omega

/-- a prefix of a path below `out` is above-or-equal `out`, or itself below `out` -/
theorem prefix_cases {out q : PathC} {cs : List Bytes} (h : q <+: out ++ cs) :
    q <+: out ∨ Below out q := by
  rcases List.prefix_or_prefix_of_prefix h (List.prefix_append out cs) with h1 | h1
  · exact Or.inl h1
  · obtain ⟨t, rfl⟩ := h1
    by_cases ht : t = []
    · subst ht; left; simp
    · right; exact ⟨t, ht, rfl⟩

theorem mem_inits {p q : PathC} : q ∈ inits p ↔ q <+: p := by
  induction p generalizing q with
  | nil => simp [inits]
  | cons c p ih =>
    simp only [inits, List.mem_cons, List.mem_map]
    constructor
    · rintro (rfl | ⟨t, ht, rfl⟩)
      · exact List.nil_prefix
      · exact (List.cons_prefix_cons).mpr ⟨rfl, ih.mp ht⟩
    · intro h
      cases q with
      | nil => left; rfl
      | cons d q =>
        obtain ⟨rfl, h2⟩ := List.cons_prefix_cons.mp h
        right; exact ⟨q, ih.mpr h2, rfl⟩

theorem goodPrefix_spec (os : OS) (fs : FS) (rest : List Bytes) :
    ∀ acc : PathC, goodPrefix os fs acc rest <+: acc ++ rest := by
  induction rest with
  | nil => intro acc; simp [goodPrefix]
  | cons c cs ih =>
    intro acc
    unfold goodPrefix
    split
    · have := ih (acc ++ [c])
      simpa [List.append_assoc] using this
    · exact List.prefix_append _ _

theorem goodPrefix_full (os : OS) (fs : FS) (rest : List Bytes) :
    ∀ acc : PathC, (∀ c ∈ rest, os.nameOk c = true) →
      (∀ t, t <+: rest → Node.isFile (fs (acc ++ t)) = false) →
      goodPrefix os fs acc rest = acc ++ rest := by
  induction rest with
  | nil => intro acc _ _; simp [goodPrefix]
  | cons c cs ih =>
    intro acc hn hf
    unfold goodPrefix
    have h1 : os.nameOk c = true := hn c (by simp)
    have h2 : Node.isFile (fs (acc ++ [c])) = false := hf [c] (by simp)
    simp only [h1, h2, Bool.not_false, Bool.and_self, if_true]
    rw [ih (acc ++ [c]) (fun d hd => hn d (List.mem_cons_of_mem _ hd))]
    · simp
    · intro t ht
      have := hf (c :: t) (List.cons_prefix_cons.mpr ⟨rfl, ht⟩)
      simpa [List.append_assoc] using this

/-- `create_dir_all` changes only missing prefixes of its argument, turning them into directories -/
theorem mkdirAll_spec (os : OS) (fs : FS) (p q : PathC) :
    (mkdirAll os fs p).1 q = fs q ∨
    (fs q = none ∧ (mkdirAll os fs p).1 q = some .dir ∧ q <+: p) := by
  unfold mkdirAll
  split
  · left; rfl
  · simp only
    have hg : goodPrefix os fs [] p <+: p := by simpa using goodPrefix_spec os fs p []
    by_cases hc : q <+: goodPrefix os fs [] p ∧ fs q = none
    · right
      refine ⟨hc.2, ?_, hc.1.trans hg⟩
      simp [List.isPrefixOf_iff_prefix, hc.1, hc.2]
    · left
      by_cases h1 : q <+: goodPrefix os fs [] p
      · have h2 : fs q ≠ none := fun h => hc ⟨h1, h⟩
        cases hfq : fs q with
        | none => exact absurd hfq h2
        | some nd => simp
      · simp [List.isPrefixOf_iff_prefix, h1]

/-- on a representable path without a file among its prefixes `create_dir_all` succeeds and makes
    every missing prefix a directory -/
theorem mkdirAll_full {os : OS} {fs : FS} {p : PathC} (hrep : os.rep p = true)
    (hnf : ∀ q, q <+: p → Node.isFile (fs q) = false) :
    mkdirAll os fs p = (fun q => if q.isPrefixOf p && (fs q).isNone then some .dir else fs q, true) := by
  unfold OS.rep at hrep
  simp only [Bool.and_eq_true, List.all_eq_true] at hrep
  have hg : goodPrefix os fs [] p = p := by
    have := goodPrefix_full os fs p [] hrep.1 (by simpa using hnf)
    simpa using this
  unfold mkdirAll
  simp [hrep.2, hg]

theorem ensureParent_spec (os : OS) (fs : FS) (par q : PathC) :
    (ensureParent os fs par).1 q = fs q ∨
    (fs q = none ∧ (ensureParent os fs par).1 q = some .dir ∧ q <+: par) := by
  unfold ensureParent
  split
  · left; rfl
  · exact mkdirAll_spec os fs par q

/-- `create_file` never changes anything that is not strictly below the output directory -/
theorem createFile_frame {os : OS} {out : PathC} {fs : FS} (hwf : WF out fs) (name : Bytes) :
    ∀ q, ¬ Below out q → (createFile os out fs name).1 q = fs q := by
  intro q hq
  unfold createFile getExtractedPath
  cases hn : norm name with
  | none => rfl
  | some r =>
    simp only [Option.map_some]
    unfold parentOf
    by_cases hp : out ++ r = []
    · simp [hp]
    · simp only [hp, if_false]
      cases r with
      | nil =>
        simp only [List.append_nil] at hp ⊢
        have hpar : fs out.dropLast = some .dir := hwf _ (List.dropLast_prefix out)
        simp [ensureParent, hpar, not_isPrefixOf_dropLast out hp]
      | cons c cs =>
        have hdl : (out ++ c :: cs).dropLast = out ++ (c :: cs).dropLast :=
          List.dropLast_append_of_ne_nil (by simp)
        rw [hdl]
        have hpre : out.isPrefixOf (out ++ (c :: cs).dropLast) = true := by
          rw [List.isPrefixOf_iff_prefix]; exact List.prefix_append _ _
        have hqne : q ≠ out ++ c :: cs := fun h => hq ⟨c :: cs, by simp, h⟩
        have hfs1q : (ensureParent os fs (out ++ (c :: cs).dropLast)).1 q = fs q := by
          rcases ensureParent_spec os fs (out ++ (c :: cs).dropLast) q with h | ⟨h1, _, h3⟩
          · exact h
          · rcases prefix_cases h3 with h4 | h4
            · rw [hwf q h4] at h1; cases h1
            · exact absurd h4 hq
        generalize ensureParent os fs (out ++ (c :: cs).dropLast) = res at hfs1q
        obtain ⟨fs1, ok⟩ := res
        cases ok with
        | false => exact hfs1q
        | true =>
          simp only [hpre, Bool.not_true, Bool.false_eq_true, if_false]
          split
          · exact hfs1q
          · unfold fileCreate
            split
            · exact hfs1q
            · simp only at hfs1q
              simp [FS.set, hqne, hfs1q]
            · exact hfs1q

theorem createFile_wf {os : OS} {out : PathC} {fs : FS} (hwf : WF out fs) (name : Bytes) :
    WF out (createFile os out fs name).1 := by
  intro q hq
  rw [createFile_frame hwf name q (not_below_of_prefix hq)]
  exact hwf q hq

/-- the path `create_file` reports is the decision `createPath`, hence strictly below `out`; and the
    reported path holds an empty file -/
theorem createFile_made' {os : OS} {out : PathC} {fs : FS} {name : Bytes} {p : PathC}
    (h : (createFile os out fs name).2 = .made p) :
    createPath out name = some p ∧ (createFile os out fs name).1 p = some (.file []) := by
  revert h
  unfold createFile createPath
  cases hg : getExtractedPath out name with
  | none => simp
  | some p0 =>
    simp only
    cases hpar : parentOf p0 with
    | none => simp
    | some par =>
      simp only
      generalize ensureParent os fs par = res
      obtain ⟨fs1, ok⟩ := res
      cases ok with
      | false => simp
      | true =>
        simp only
        by_cases hpre : out.isPrefixOf par = true
        · simp only [hpre, Bool.not_true, Bool.false_eq_true, if_false, if_true]
          split
          · simp
          · unfold fileCreate
            split
            · simp
            · intro h
              simp only [Created.made.injEq] at h
              subst h
              simp [FS.set]
            · simp
        · simp [hpre]

theorem createFile_made {os : OS} {out : PathC} {fs : FS} {name : Bytes} {p : PathC}
    (h : (createFile os out fs name).2 = .made p) : createPath out name = some p :=
  (createFile_made' h).1

theorem createFile_made_file {os : OS} {out : PathC} {fs : FS} {m : Bytes} {p : PathC}
    (h : (createFile os out fs m).2 = .made p) : (createFile os out fs m).1 p = some (.file []) :=
  (createFile_made' h).2

theorem below_of_createPath {out : PathC} {name : Bytes} {p : PathC} (h : createPath out name = some p) :
    Below out p := by
  rcases inside out name with h0 | ⟨cs, hcs, h1, _⟩
  · rw [h0] at h; cases h
  · rw [h1] at h; cases h; exact ⟨cs, hcs, rfl⟩

theorem set_frame {out : PathC} {fs : FS} {p : PathC} {n : Node} (hp : Below out p) :
    ∀ q, ¬ Below out q → (fs.set p n) q = fs q := by
  intro q hq
  have : q ≠ p := fun h => hq (h ▸ hp)
  simp [FS.set, this]

theorem set_wf {out : PathC} {fs : FS} {p : PathC} {n : Node} (hwf : WF out fs) (hp : Below out p) :
    WF out (fs.set p n) := by
  intro q hq
  rw [set_frame hp q (not_below_of_prefix hq)]; exact hwf q hq

/-- first loop of the whole-archive form: frame, well-formedness, and the export map only holds
    paths decided by `createPath` -/
theorem createAll_frame {pol : Policy} {os : OS} {out : PathC} (ns : List Bytes) :
    ∀ {fs : FS}, WF out fs →
      (∀ q, ¬ Below out q → (createAll pol os out fs ns).1 q = fs q) ∧
      WF out (createAll pol os out fs ns).1 ∧
      ∀ ex, (createAll pol os out fs ns).2 = some ex → ∀ x ∈ ex, createPath out x.1 = some x.2 := by
  induction ns with
  | nil => intro fs hwf; simp [createAll, hwf]
  | cons n ns ih =>
    intro fs hwf
    have hfr := createFile_frame (os := os) hwf n
    have hwf1 := createFile_wf (os := os) hwf n
    have hmade := @createFile_made os out fs n
    unfold createAll
    generalize createFile os out fs n = r at hfr hwf1 hmade
    obtain ⟨fs1, c⟩ := r
    simp only at hfr hwf1 hmade
    obtain ⟨ih1, ih2, ih3⟩ := ih hwf1
    cases c with
    | made p =>
      simp only
      generalize createAll pol os out fs1 ns = r2 at ih1 ih2 ih3
      obtain ⟨fs2, oex⟩ := r2
      cases oex with
      | none =>
        simp only at ih1 ih2 ⊢
        exact ⟨fun q hq => by rw [ih1 q hq, hfr q hq], ih2, by simp⟩
      | some ex =>
        simp only at ih1 ih2 ih3 ⊢
        refine ⟨fun q hq => by rw [ih1 q hq, hfr q hq], ih2, ?_⟩
        intro ex' hex' x hx
        simp only [Option.some.injEq] at hex'
        subst hex'
        simp only [List.mem_cons] at hx
        rcases hx with rfl | hx
        · exact hmade rfl
        · exact ih3 ex rfl x hx
    | skip =>
      simp only
      exact ⟨fun q hq => by rw [ih1 q hq, hfr q hq], ih2, ih3⟩
    | err =>
      cases pol with
      | abort => simp only; exact ⟨hfr, hwf1, by simp⟩
      | skip => simp only; exact ⟨fun q hq => by rw [ih1 q hq, hfr q hq], ih2, ih3⟩

theorem lookup_mem {ex : List (Bytes × PathC)} {n : Bytes} {p : PathC} (h : ex.lookup n = some p) :
    (n, p) ∈ ex := by
  induction ex with
  | nil => simp at h
  | cons x xs ih =>
    obtain ⟨a, b⟩ := x
    simp only [List.lookup_cons] at h
    split at h
    · rename_i heq
      simp only [Option.some.injEq] at h
      have : n = a := by simpa using heq
      subst this; subst h; simp
    · exact List.mem_cons_of_mem _ (ih h)

theorem appendPieces_frame {out : PathC} {ex : List (Bytes × PathC)}
    (hex : ∀ x ∈ ex, Below out x.2) (ps : List (Bytes × Bytes)) :
    ∀ fs : FS, ∀ q, ¬ Below out q → (appendPieces ex fs ps).1 q = fs q := by
  induction ps with
  | nil => intro fs q _; rfl
  | cons x r ih =>
    intro fs q hq
    obtain ⟨n, d⟩ := x
    unfold appendPieces
    split
    · exact ih fs q hq
    · rename_i p hp
      have hbel : Below out p := hex _ (lookup_mem hp)
      split
      · rw [ih _ q hq]; exact set_frame hbel q hq
      · rfl

theorem eachExtract_frame {pol : Policy} {os : OS} {out : PathC} {content : Bytes → Bytes}
    (ns : List Bytes) :
    ∀ {fs : FS}, WF out fs → ∀ q, ¬ Below out q → (eachExtract pol os out content fs ns).1 q = fs q := by
  induction ns with
  | nil => intro fs _ q _; rfl
  | cons n ns ih =>
    intro fs hwf q hq
    have hfr := createFile_frame (os := os) hwf n
    have hwf1 := createFile_wf (os := os) hwf n
    have hmade := @createFile_made os out fs n
    unfold eachExtract
    generalize createFile os out fs n = r at hfr hwf1 hmade
    obtain ⟨fs1, c⟩ := r
    simp only at hfr hwf1 hmade
    cases c with
    | made p =>
      simp only
      have hbel : Below out p := below_of_createPath (hmade rfl)
      rw [ih (set_wf hwf1 hbel) q hq, set_frame hbel q hq, hfr q hq]
    | skip => simp only; rw [ih hwf1 q hq, hfr q hq]
    | err =>
      cases pol with
      | abort => simp only; exact hfr q hq
      | skip => simp only; rw [ih hwf1 q hq, hfr q hq]

/-- **C16.frame** — FILE-SYSTEM LEVEL SAFETY.  Whatever the member names and contents, whatever the
    order of blocks, whichever form of `extract` (whole archive; a name or glob `sel`), whether the
    command completes or aborts on an OS error, and under either error policy: every path that is not
    STRICTLY BELOW the output directory has, afterwards, exactly the node (file bytes / directory /
    nothing) it had before.  Hypothesis: the output directory exists (`WF`); OS assumption: it is
    canonical and free of symbolic links (built into `createPath`). -/
theorem frame (pol : Policy) (os : OS) (out : PathC) (fs : FS) (a : Archive) (sel : Bytes → Bool)
    (hwf : WF out fs) :
    (∀ q, ¬ Below out q → (wholeExtract pol os out fs a).1 q = fs q) ∧
    (∀ q, ¬ Below out q → (listedExtract pol os out fs a sel).1 q = fs q) := by
  constructor
  · intro q hq
    unfold wholeExtract
    obtain ⟨h1, _, h3⟩ := createAll_frame (pol := pol) (os := os) a.names hwf
    generalize createAll pol os out fs a.names = r at h1 h3
    obtain ⟨fs1, oex⟩ := r
    cases oex with
    | none => exact h1 q hq
    | some ex =>
      simp only at h1 h3 ⊢
      rw [appendPieces_frame (fun x hx => below_of_createPath (h3 ex rfl x hx)) a.pieces fs1 q hq]
      exact h1 q hq
  · intro q hq
    exact eachExtract_frame _ hwf q hq

example : WF [[116], [111]] (freshFS [[116], [111]]) := by
  intro q hq; simp [freshFS, List.isPrefixOf_iff_prefix, hq]

/-! ### Part C: members that do not collide are extracted with exactly their content -/

/-- everything `create_file` can do to one path `q`: nothing; make a missing prefix of the parent a
    directory; create/truncate the file it reports -/
theorem createFile_change (os : OS) (out : PathC) (fs : FS) (name : Bytes) (q : PathC) :
    (createFile os out fs name).1 q = fs q
    ∨ (fs q = none ∧ (createFile os out fs name).1 q = some .dir ∧
        ∃ p, getExtractedPath out name = some p ∧ p ≠ [] ∧ q <+: p.dropLast)
    ∨ ((createFile os out fs name).1 q = some (.file []) ∧ fs q ≠ some .dir ∧
        (createFile os out fs name).2 = .made q) := by
  unfold createFile
  cases hg : getExtractedPath out name with
  | none => left; rfl
  | some p =>
    simp only
    unfold parentOf
    by_cases hp : p = []
    · simp [hp]
    · simp only [hp, if_false]
      have hq1 := ensureParent_spec os fs p.dropLast q
      generalize ensureParent os fs p.dropLast = res at hq1
      obtain ⟨fs1, ok⟩ := res
      simp only at hq1
      have hdefault : fs1 q = fs q ∨ (fs q = none ∧ fs1 q = some .dir ∧
          ∃ p', some p = some p' ∧ p' ≠ [] ∧ q <+: p'.dropLast) := by
        rcases hq1 with h | ⟨h1, h2, h3⟩
        · left; exact h
        · right; exact ⟨h1, h2, p, rfl, hp, h3⟩
      cases ok with
      | false =>
        simp only
        rcases hdefault with h | h
        · left; exact h
        · right; left; exact h
      | true =>
        simp only
        split
        · rcases hdefault with h | h
          · left; exact h
          · right; left; exact h
        · split
          · rcases hdefault with h | h
            · left; exact h
            · right; left; exact h
          · unfold fileCreate
            split
            · rcases hdefault with h | h
              · left; exact h
              · right; left; exact h
            · rename_i hnd
              by_cases hqp : q = p
              · subst hqp
                right; right
                refine ⟨by simp [FS.set], ?_, rfl⟩
                intro hd
                rcases hq1 with h | ⟨h1, _, _⟩
                · exact hnd (by rw [h, hd])
                · rw [hd] at h1; cases h1
              · simp only [FS.set, hqp, if_false]
                rcases hdefault with h | h
                · left; exact h
                · right; left; exact h
            · rcases hdefault with h | h
              · left; exact h
              · right; left; exact h

theorem createPath_some {out : PathC} {name : Bytes} {q : PathC} (h : createPath out name = some q) :
    ∃ r, r ≠ [] ∧ norm name = some r ∧ q = out ++ r := by
  rw [createPath_eq] at h
  cases hn : norm name with
  | none => simp [hn] at h
  | some r =>
    cases r with
    | nil => simp [hn] at h
    | cons c cs => simp only [hn, Option.some.injEq] at h; exact ⟨c :: cs, by simp, rfl, h.symm⟩

theorem getExtractedPath_some {out : PathC} {name : Bytes} {p : PathC}
    (h : getExtractedPath out name = some p) : ∃ r, norm name = some r ∧ p = out ++ r := by
  unfold getExtractedPath at h
  simp only [Option.map_eq_some_iff] at h
  obtain ⟨r, hr, rfl⟩ := h
  exact ⟨r, hr, rfl⟩

/-- nothing exists yet below the output directory -/
def Fresh (out : PathC) (fs : FS) : Prop := ∀ q, Below out q → fs q = none

/-- what is below the output directory came from the members `D` processed so far: files sit at
    members' paths, directories are proper prefixes of members' paths -/
structure Inv (out : PathC) (D : Bytes → Prop) (fs : FS) : Prop where
  wf : WF out fs
  files : ∀ q b, Below out q → fs q = some (.file b) → ∃ m r, D m ∧ norm m = some r ∧ q = out ++ r
  dirs : ∀ q, Below out q → fs q = some .dir →
    ∃ m r t, D m ∧ norm m = some r ∧ t ≠ [] ∧ out ++ r = q ++ t

theorem Inv.mono {out : PathC} {D D' : Bytes → Prop} {fs : FS} (h : ∀ m, D m → D' m)
    (inv : Inv out D fs) : Inv out D' fs :=
  { wf := inv.wf
    files := fun q b hq hf => by
      obtain ⟨m, r, hm, h1, h2⟩ := inv.files q b hq hf; exact ⟨m, r, h m hm, h1, h2⟩
    dirs := fun q hq hd => by
      obtain ⟨m, r, t, hm, h1, h2, h3⟩ := inv.dirs q hq hd; exact ⟨m, r, t, h m hm, h1, h2, h3⟩ }

theorem Inv.of_fresh {out : PathC} {fs : FS} (hwf : WF out fs) (hfr : Fresh out fs) :
    Inv out (fun _ => False) fs :=
  { wf := hwf
    files := fun q b hq hf => by rw [hfr q hq] at hf; cases hf
    dirs := fun q hq hd => by rw [hfr q hq] at hd; cases hd }

theorem Inv.step {os : OS} {out : PathC} {D : Bytes → Prop} {fs : FS} (inv : Inv out D fs) (n : Bytes) :
    Inv out (fun m => m = n ∨ D m) (createFile os out fs n).1 :=
  { wf := createFile_wf inv.wf n
    files := fun q b hq hf => by
      rcases createFile_change os out fs n q with h | ⟨_, h2, _⟩ | ⟨_, _, h3⟩
      · rw [h] at hf
        obtain ⟨m, r, hm, h1, h2⟩ := inv.files q b hq hf
        exact ⟨m, r, Or.inr hm, h1, h2⟩
      · rw [h2] at hf; cases hf
      · obtain ⟨r, _, hr, hqr⟩ := createPath_some (createFile_made h3)
        exact ⟨n, r, Or.inl rfl, hr, hqr⟩
    dirs := fun q hq hd => by
      rcases createFile_change os out fs n q with h | ⟨_, _, p, hp, hpne, hqp⟩ | ⟨h1, _, _⟩
      · rw [h] at hd
        obtain ⟨m, r, t, hm, h1, h2, h3⟩ := inv.dirs q hq hd
        exact ⟨m, r, t, Or.inr hm, h1, h2, h3⟩
      · obtain ⟨r, hr, rfl⟩ := getExtractedPath_some hp
        obtain ⟨t, ht⟩ := hqp
        refine ⟨n, r, t ++ [(out ++ r).getLast hpne], Or.inl rfl, hr, by simp, ?_⟩
        rw [← List.append_assoc, ht, List.dropLast_concat_getLast]
      · rw [h1] at hd; cases hd }

/-- changing the bytes of an existing file does not disturb the invariant -/
theorem Inv.set_file {out : PathC} {D : Bytes → Prop} {fs : FS} (inv : Inv out D fs) {p : PathC}
    {b0 b1 : Bytes} (hp : fs p = some (.file b0)) (hbel : Below out p) :
    Inv out D (fs.set p (.file b1)) :=
  { wf := set_wf inv.wf hbel
    files := fun q b hq hf => by
      by_cases hqp : q = p
      · subst hqp; exact inv.files q b0 hq hp
      · simp only [FS.set, hqp, if_false] at hf; exact inv.files q b hq hf
    dirs := fun q hq hd => by
      by_cases hqp : q = p
      · subst hqp; simp [FS.set] at hd
      · simp only [FS.set, hqp, if_false] at hd; exact inv.dirs q hq hd }

/-- member `n` (normalised path `r`) can be created by the OS, and no OTHER member of `N` has a
    normalised path that is a prefix of `r` or has `r` as a prefix (equal paths included) -/
structure Isolated (os : OS) (out : PathC) (N : List Bytes) (n : Bytes) (r : List Bytes) : Prop where
  hnorm : norm n = some r
  hne : r ≠ []
  hrep : os.rep (out ++ r) = true
  hrepPar : os.rep (out ++ r.dropLast) = true
  hiso : ∀ m ∈ N, m ≠ n → ∀ r', norm m = some r' → ¬ r' <+: r ∧ ¬ r <+: r'

theorem fileCreate_ok (fs1 : FS) (par p : PathC) (h1 : fs1 par = some .dir) (h2 : fs1 p ≠ some .dir) :
    fileCreate fs1 par p = (fs1.set p (.file []), Created.made p) := by
  unfold fileCreate
  rw [h1]
  cases h : fs1 p with
  | none => rfl
  | some nd =>
    cases nd with
    | dir => exact absurd h h2
    | file b => rfl

/-- an isolated member is created (truncated to empty) whatever was extracted before it -/
theorem step_made {os : OS} {out : PathC} {D : Bytes → Prop} {fs : FS} {N : List Bytes} {n : Bytes}
    {r : List Bytes} (inv : Inv out D fs) (hiso : Isolated os out N n r)
    (hD : ∀ m, D m → m ∈ N ∧ m ≠ n) :
    (createFile os out fs n).2 = .made (out ++ r) ∧
    (createFile os out fs n).1 (out ++ r) = some (.file []) := by
  have hne := hiso.hne
  have hdl : (out ++ r).dropLast = out ++ r.dropLast := List.dropLast_append_of_ne_nil hne
  have hpne : out ++ r ≠ [] := by simp [hne]
  -- F1: no prefix of the parent is a file
  have F1 : ∀ q, q <+: out ++ r.dropLast → Node.isFile (fs q) = false := by
    intro q hq
    rcases prefix_cases hq with h | h
    · rw [inv.wf q h]; rfl
    · cases hfq : fs q with
      | none => rfl
      | some nd =>
        cases nd with
        | dir => rfl
        | file b =>
          obtain ⟨m, r', hm, hr', rfl⟩ := inv.files q b h hfq
          have h1 : r' <+: r.dropLast := (List.prefix_append_right_inj out).mp hq
          exact absurd (h1.trans (List.dropLast_prefix r)) (hiso.hiso m (hD m hm).1 (hD m hm).2 r' hr').1
  -- F2: the target is not a directory
  have F2 : fs (out ++ r) ≠ some .dir := by
    intro hd
    obtain ⟨m, r', t, hm, hr', _, heq⟩ := inv.dirs _ ⟨r, hne, rfl⟩ hd
    have : r' = r ++ t := by
      rw [List.append_assoc] at heq; exact List.append_cancel_left heq
    exact (hiso.hiso m (hD m hm).1 (hD m hm).2 r' hr').2 (this ▸ List.prefix_append r t)
  -- F3: the target is not a prefix of its parent
  have F3 : ¬ (out ++ r) <+: (out ++ r.dropLast) := by
    intro h
    have := h.length_le
    simp only [List.length_append, List.length_dropLast] at this
    have : 0 < r.length := List.length_pos_iff.mpr hne
    omega
  have hpre : out.isPrefixOf (out ++ r.dropLast) = true := by
    rw [List.isPrefixOf_iff_prefix]; exact List.prefix_append _ _
  have hrepPar : os.rep (out ++ r.dropLast) = true := hiso.hrepPar
  unfold createFile getExtractedPath
  simp only [hiso.hnorm, Option.map_some]
  unfold parentOf
  simp only [hpne, if_false, hdl]
  by_cases hsome : (fs (out ++ r.dropLast)).isSome = true
  · have hpar : fs (out ++ r.dropLast) = some .dir := by
      have := F1 _ (List.prefix_refl _)
      cases hfp : fs (out ++ r.dropLast) with
      | none => rw [hfp] at hsome; cases hsome
      | some nd =>
        cases nd with
        | dir => rfl
        | file b => rw [hfp] at this; cases this
    simp only [ensureParent, hsome, if_true, hpre, Bool.not_true, Bool.false_eq_true, if_false, hiso.hrep]
    rw [fileCreate_ok fs _ _ hpar F2]
    simp [FS.set]
  · have hnone : fs (out ++ r.dropLast) = none := by
      cases hfp : fs (out ++ r.dropLast) with
      | none => rfl
      | some nd => rw [hfp] at hsome; simp at hsome
    simp only [ensureParent, hsome, mkdirAll_full hrepPar F1, hpre, Bool.not_true, Bool.false_eq_true,
      if_false, hiso.hrep]
    rw [fileCreate_ok]
    · simp [FS.set]
    · simp [hnone]
    · have : (out ++ r).isPrefixOf (out ++ r.dropLast) = false := by
        cases hb : (out ++ r).isPrefixOf (out ++ r.dropLast) with
        | false => rfl
        | true => exact absurd (List.isPrefixOf_iff_prefix.mp hb) F3
      simp only [this, Bool.false_and, Bool.false_eq_true, if_false]
      exact F2

/-- a file that exists keeps its bytes when another member, whose path is different, is created -/
theorem createFile_preserve {os : OS} {out : PathC} {fs : FS} {m : Bytes} {p : PathC} {b : Bytes}
    (hp : fs p = some (.file b)) (hne : createPath out m ≠ some p) :
    (createFile os out fs m).1 p = some (.file b) := by
  rcases createFile_change os out fs m p with h | ⟨h1, _, _⟩ | ⟨_, _, h3⟩
  · rw [h, hp]
  · rw [hp] at h1; cases h1
  · exact absurd (createFile_made h3) hne

/-- files stay files -/
theorem createFile_keeps_file {os : OS} {out : PathC} {fs : FS} {m : Bytes} {p : PathC} {b : Bytes}
    (hp : fs p = some (.file b)) : ∃ b', (createFile os out fs m).1 p = some (.file b') := by
  rcases createFile_change os out fs m p with h | ⟨h1, _, _⟩ | ⟨h1, _, _⟩
  · exact ⟨b, by rw [h, hp]⟩
  · rw [hp] at h1; cases h1
  · exact ⟨[], h1⟩

theorem createAll_cons (pol : Policy) (os : OS) (out : PathC) (fs : FS) (n : Bytes) (ns : List Bytes) :
    createAll pol os out fs (n :: ns) =
      match (createFile os out fs n).2 with
      | .made p => ((createAll pol os out (createFile os out fs n).1 ns).1,
                    ((createAll pol os out (createFile os out fs n).1 ns).2).map ((n, p) :: ·))
      | .skip => createAll pol os out (createFile os out fs n).1 ns
      | .err =>
        match pol with
        | .abort => ((createFile os out fs n).1, none)
        | .skip => createAll pol os out (createFile os out fs n).1 ns := by
  rw [createAll]
  generalize createFile os out fs n = r
  obtain ⟨fs1, c⟩ := r
  cases c with
  | made p =>
    simp only
    generalize createAll pol os out fs1 ns = r2
    obtain ⟨fs2, oex⟩ := r2
    cases oex <;> rfl
  | skip => rfl
  | err => cases pol <;> rfl

theorem createAll_preserve {pol : Policy} {os : OS} {out : PathC} {p : PathC} {b : Bytes}
    (ns : List Bytes) : ∀ fs : FS, fs p = some (.file b) → (∀ m ∈ ns, createPath out m ≠ some p) →
      (createAll pol os out fs ns).1 p = some (.file b) := by
  induction ns with
  | nil => intro fs h _; exact h
  | cons n ns ih =>
    intro fs h hne
    have h1 := createFile_preserve (os := os) h (hne n (by simp))
    have ih' := ih _ h1 (fun m hm => hne m (List.mem_cons_of_mem _ hm))
    rw [createAll_cons]
    split
    · exact ih'
    · exact ih'
    · cases pol
      · exact h1
      · exact ih'

theorem createAll_keeps_file {pol : Policy} {os : OS} {out : PathC} {p : PathC}
    (ns : List Bytes) : ∀ (fs : FS) (b : Bytes), fs p = some (.file b) →
      ∃ b', (createAll pol os out fs ns).1 p = some (.file b') := by
  induction ns with
  | nil => intro fs b h; exact ⟨b, h⟩
  | cons n ns ih =>
    intro fs b h
    obtain ⟨b1, h1⟩ := createFile_keeps_file (os := os) (m := n) h
    have ih' := ih _ b1 h1
    rw [createAll_cons]
    split
    · exact ih'
    · exact ih'
    · cases pol
      · exact ⟨b1, h1⟩
      · exact ih'

theorem createAll_inv {pol : Policy} {os : OS} {out : PathC} (ns : List Bytes) :
    ∀ (fs : FS) (D : Bytes → Prop), Inv out D fs →
      Inv out (fun m => m ∈ ns ∨ D m) (createAll pol os out fs ns).1 := by
  induction ns with
  | nil => intro fs D inv; exact inv.mono (fun m h => Or.inr h)
  | cons n ns ih =>
    intro fs D inv
    have inv1 := inv.step (os := os) n
    have ih' := (ih _ _ inv1).mono (D' := fun m => m ∈ n :: ns ∨ D m) (by
      intro m hm
      rcases hm with hm | hm | hm
      · exact Or.inl (List.mem_cons_of_mem _ hm)
      · exact Or.inl (by simp [hm])
      · exact Or.inr hm)
    rw [createAll_cons]
    split
    · exact ih'
    · exact ih'
    · cases pol
      · exact inv1.mono (by
          intro m hm
          rcases hm with hm | hm
          · exact Or.inl (by simp [hm])
          · exact Or.inr hm)
      · exact ih'

theorem iso_path_ne {os : OS} {out : PathC} {N : List Bytes} {n m : Bytes} {r : List Bytes}
    (hiso : Isolated os out N n r) (hm : m ∈ N) (hne : m ≠ n) : createPath out m ≠ some (out ++ r) := by
  intro h
  obtain ⟨r', _, hr', heq⟩ := createPath_some h
  have : r = r' := List.append_cancel_left heq
  subst this
  exact (hiso.hiso m hm hne r hr').1 (List.prefix_refl _)

/-- the first loop, when either errors are skipped or every member is isolated: it completes; the
    export map has a file behind every entry; every isolated member is in the map at its own path,
    created empty -/
theorem createAll_G {pol : Policy} {os : OS} {out : PathC} {N : List Bytes}
    (hpol : pol = .skip ∨ ∀ m ∈ N, ∃ r, Isolated os out N m r) (ns : List Bytes) :
    ∀ (fs : FS) (D : Bytes → Prop), Inv out D fs → ns.Nodup → (∀ m ∈ ns, ¬ D m) →
      (∀ m, D m → m ∈ N) → (∀ m ∈ ns, m ∈ N) →
      ∃ ex, (createAll pol os out fs ns).2 = some ex ∧
        (∀ x ∈ ex, x.1 ∈ ns ∧ ∃ b, (createAll pol os out fs ns).1 x.2 = some (.file b)) ∧
        (∀ n r, n ∈ ns → Isolated os out N n r →
          ex.lookup n = some (out ++ r) ∧ (createAll pol os out fs ns).1 (out ++ r) = some (.file [])) := by
  induction ns with
  | nil => intro fs D _ _ _ _ _; exact ⟨[], rfl, by simp, by simp⟩
  | cons n0 ns ih =>
    intro fs D inv hnd hnD hDN hnsN
    have hnd' := List.nodup_cons.mp hnd
    have inv1 := inv.step (os := os) n0
    have hD0 : ∀ m, D m → m ∈ N ∧ m ≠ n0 := fun m hm =>
      ⟨hDN m hm, fun h => hnD n0 (by simp) (h ▸ hm)⟩
    obtain ⟨ex', hex', hfiles', hmade'⟩ := ih (createFile os out fs n0).1 (fun m => m = n0 ∨ D m) inv1 hnd'.2
      (by
        intro m hm hd
        rcases hd with hd | hd
        · exact hnd'.1 (hd ▸ hm)
        · exact hnD m (List.mem_cons_of_mem _ hm) hd)
      (by
        intro m hd
        rcases hd with hd | hd
        · exact hd ▸ hnsN n0 (by simp)
        · exact hDN m hd)
      (fun m hm => hnsN m (List.mem_cons_of_mem _ hm))
    -- facts about the tail that do not depend on what happened to `n0`
    have tail_made : ∀ n r, n ∈ ns → Isolated os out N n r → ∀ p0,
        ((n0, p0) :: ex').lookup n = some (out ++ r) ∧ ex'.lookup n = some (out ++ r) ∧
        (createAll pol os out (createFile os out fs n0).1 ns).1 (out ++ r) = some (.file []) := by
      intro n r hn hiso p0
      have hne : n ≠ n0 := fun h => hnd'.1 (h ▸ hn)
      obtain ⟨h1, h2⟩ := hmade' n r hn hiso
      refine ⟨?_, h1, h2⟩
      have hb : (n == n0) = false := by simp [hne]
      simp [List.lookup_cons, hb, h1]
    have head_made : ∀ r, Isolated os out N n0 r →
        (createFile os out fs n0).2 = .made (out ++ r) ∧
        (createAll pol os out (createFile os out fs n0).1 ns).1 (out ++ r) = some (.file []) := by
      intro r hiso
      obtain ⟨h1, h2⟩ := step_made inv hiso hD0
      refine ⟨h1, createAll_preserve ns _ h2 ?_⟩
      intro m hm
      exact iso_path_ne hiso (hnsN m (List.mem_cons_of_mem _ hm)) (fun h => hnd'.1 (h ▸ hm))
    rw [createAll_cons]
    cases hc : (createFile os out fs n0).2 with
    | made p =>
      simp only [hex', Option.map_some]
      refine ⟨(n0, p) :: ex', rfl, ?_, ?_⟩
      · intro x hx
        simp only [List.mem_cons] at hx
        rcases hx with rfl | hx
        · refine ⟨by simp, ?_⟩
          exact createAll_keeps_file ns _ _ (createFile_made_file hc)
        · exact ⟨List.mem_cons_of_mem _ (hfiles' x hx).1, (hfiles' x hx).2⟩
      · intro n r hn hiso
        simp only [List.mem_cons] at hn
        rcases hn with rfl | hn
        · obtain ⟨h1, h2⟩ := head_made r hiso
          rw [hc] at h1
          simp only [Created.made.injEq] at h1
          subst h1
          exact ⟨by simp, h2⟩
        · obtain ⟨h1, _, h3⟩ := tail_made n r hn hiso p
          exact ⟨h1, h3⟩
    | skip =>
      simp only
      refine ⟨ex', hex', ?_, ?_⟩
      · intro x hx
        exact ⟨List.mem_cons_of_mem _ (hfiles' x hx).1, (hfiles' x hx).2⟩
      · intro n r hn hiso
        simp only [List.mem_cons] at hn
        rcases hn with rfl | hn
        · obtain ⟨h1, _⟩ := head_made r hiso
          rw [hc] at h1; cases h1
        · obtain ⟨_, h2, h3⟩ := tail_made n r hn hiso []
          exact ⟨h2, h3⟩
    | err =>
      have hskip : pol = .skip := by
        rcases hpol with h | h
        · exact h
        · obtain ⟨r, hiso⟩ := h n0 (hnsN n0 (by simp))
          obtain ⟨h1, _⟩ := head_made r hiso
          rw [hc] at h1; cases h1
      subst hskip
      simp only
      refine ⟨ex', hex', ?_, ?_⟩
      · intro x hx
        exact ⟨List.mem_cons_of_mem _ (hfiles' x hx).1, (hfiles' x hx).2⟩
      · intro n r hn hiso
        simp only [List.mem_cons] at hn
        rcases hn with rfl | hn
        · obtain ⟨h1, _⟩ := head_made r hiso
          rw [hc] at h1; cases h1
        · obtain ⟨_, h2, h3⟩ := tail_made n r hn hiso []
          exact ⟨h2, h3⟩

/-- `linear_extract` over an export map with a file behind every entry: it completes; each file gets
    the blocks of the members mapped to it, in stream order, appended; nothing else changes -/
theorem appendPieces_G (ex : List (Bytes × PathC)) (ps : List (Bytes × Bytes)) :
    ∀ fs : FS, (∀ x ∈ ex, ∃ b, fs x.2 = some (.file b)) →
      (appendPieces ex fs ps).2 = true ∧
      (∀ q b, fs q = some (.file b) → (appendPieces ex fs ps).1 q =
          some (.file (b ++ (ps.filter (fun x => decide (ex.lookup x.1 = some q))).flatMap (·.2)))) ∧
      (∀ q, (∀ b, fs q ≠ some (.file b)) → (appendPieces ex fs ps).1 q = fs q) := by
  induction ps with
  | nil => intro fs _; simp [appendPieces]
  | cons x r ih =>
    intro fs hex
    obtain ⟨n, d⟩ := x
    unfold appendPieces
    cases hl : ex.lookup n with
    | none =>
      simp only
      obtain ⟨h1, h2, h3⟩ := ih fs hex
      refine ⟨h1, ?_, h3⟩
      intro q b hq
      rw [h2 q b hq]
      simp [hl]
    | some p =>
      simp only
      obtain ⟨b0, hb0⟩ := hex _ (lookup_mem hl)
      simp only at hb0
      simp only [hb0]
      have hex' : ∀ x ∈ ex, ∃ b, (fs.set p (.file (b0 ++ d))) x.2 = some (.file b) := by
        intro x hx
        by_cases hxp : x.2 = p
        · exact ⟨b0 ++ d, by simp [FS.set, hxp]⟩
        · obtain ⟨b, hb⟩ := hex x hx
          exact ⟨b, by simp [FS.set, hxp, hb]⟩
      obtain ⟨h1, h2, h3⟩ := ih _ hex'
      refine ⟨h1, ?_, ?_⟩
      · intro q b hq
        by_cases hqp : q = p
        · subst hqp
          rw [hb0] at hq
          simp only [Option.some.injEq, Node.file.injEq] at hq
          subst hq
          rw [h2 q (b0 ++ d) (by simp [FS.set])]
          simp [hl, List.append_assoc]
        · rw [h2 q b (by simp [FS.set, hqp, hq])]
          have : ¬ (p = q) := fun h => hqp h.symm
          simp [hl, this]
      · intro q hq
        have hqp : q ≠ p := fun h => hq b0 (h ▸ hb0)
        rw [h3 q (by simpa [FS.set, hqp] using hq)]
        simp [FS.set, hqp]

theorem eachExtract_cons (pol : Policy) (os : OS) (out : PathC) (content : Bytes → Bytes) (fs : FS)
    (n : Bytes) (ns : List Bytes) :
    eachExtract pol os out content fs (n :: ns) =
      match (createFile os out fs n).2 with
      | .made p => eachExtract pol os out content ((createFile os out fs n).1.set p (.file (content n))) ns
      | .skip => eachExtract pol os out content (createFile os out fs n).1 ns
      | .err =>
        match pol with
        | .abort => ((createFile os out fs n).1, false)
        | .skip => eachExtract pol os out content (createFile os out fs n).1 ns := by
  rw [eachExtract]
  generalize createFile os out fs n = r
  obtain ⟨fs1, c⟩ := r
  cases c with
  | made p => rfl
  | skip => rfl
  | err => cases pol <;> rfl

theorem eachExtract_preserve {pol : Policy} {os : OS} {out : PathC} {content : Bytes → Bytes}
    {p : PathC} {b : Bytes} (ns : List Bytes) :
    ∀ fs : FS, fs p = some (.file b) → (∀ m ∈ ns, createPath out m ≠ some p) →
      (eachExtract pol os out content fs ns).1 p = some (.file b) := by
  induction ns with
  | nil => intro fs h _; exact h
  | cons n ns ih =>
    intro fs h hne
    have h1 := createFile_preserve (os := os) h (hne n (by simp))
    have hne' : ∀ m ∈ ns, createPath out m ≠ some p := fun m hm => hne m (List.mem_cons_of_mem _ hm)
    rw [eachExtract_cons]
    split
    · rename_i p' hc
      have : p ≠ p' := fun hpp => hne n (by simp) (hpp ▸ createFile_made hc)
      exact ih _ (by simp [FS.set, this, h1]) hne'
    · exact ih _ h1 hne'
    · cases pol
      · exact h1
      · exact ih _ h1 hne'

/-- the per-name form, when either errors are skipped or every member is isolated: it completes;
    the invariant holds at the end; every isolated selected member has exactly its content -/
theorem eachExtract_G {pol : Policy} {os : OS} {out : PathC} {N : List Bytes} {content : Bytes → Bytes}
    (hpol : pol = .skip ∨ ∀ m ∈ N, ∃ r, Isolated os out N m r) (ns : List Bytes) :
    ∀ (fs : FS) (D : Bytes → Prop), Inv out D fs → ns.Nodup → (∀ m ∈ ns, ¬ D m) →
      (∀ m, D m → m ∈ N) → (∀ m ∈ ns, m ∈ N) →
      (eachExtract pol os out content fs ns).2 = true ∧
      Inv out (fun m => m ∈ ns ∨ D m) (eachExtract pol os out content fs ns).1 ∧
      (∀ n r, n ∈ ns → Isolated os out N n r →
        (eachExtract pol os out content fs ns).1 (out ++ r) = some (.file (content n))) := by
  induction ns with
  | nil =>
    intro fs D inv _ _ _ _
    exact ⟨rfl, inv.mono (fun m h => Or.inr h), by simp⟩
  | cons n0 ns ih =>
    intro fs D inv hnd hnD hDN hnsN
    have hnd' := List.nodup_cons.mp hnd
    have inv1 := inv.step (os := os) n0
    have hD0 : ∀ m, D m → m ∈ N ∧ m ≠ n0 := fun m hm =>
      ⟨hDN m hm, fun h => hnD n0 (by simp) (h ▸ hm)⟩
    have hside1 : ∀ m ∈ ns, ¬ (m = n0 ∨ D m) := by
      intro m hm hd
      rcases hd with hd | hd
      · exact hnd'.1 (hd ▸ hm)
      · exact hnD m (List.mem_cons_of_mem _ hm) hd
    have hside2 : ∀ m, (m = n0 ∨ D m) → m ∈ N := by
      intro m hd
      rcases hd with hd | hd
      · exact hd ▸ hnsN n0 (by simp)
      · exact hDN m hd
    have hside3 : ∀ m ∈ ns, m ∈ N := fun m hm => hnsN m (List.mem_cons_of_mem _ hm)
    have hmono : ∀ m, (m ∈ ns ∨ (m = n0 ∨ D m)) → (m ∈ n0 :: ns ∨ D m) := by
      intro m hm
      rcases hm with hm | hm | hm
      · exact Or.inl (List.mem_cons_of_mem _ hm)
      · exact Or.inl (by simp [hm])
      · exact Or.inr hm
    have others_ne : ∀ r, Isolated os out N n0 r → ∀ m ∈ ns, createPath out m ≠ some (out ++ r) :=
      fun r hiso m hm => iso_path_ne hiso (hside3 m hm) (fun h => hnd'.1 (h ▸ hm))
    rw [eachExtract_cons]
    cases hc : (createFile os out fs n0).2 with
    | made p =>
      simp only
      have hfile := createFile_made_file hc
      have hbel : Below out p := below_of_createPath (createFile_made hc)
      have inv2 := inv1.set_file (b1 := content n0) hfile hbel
      obtain ⟨h1, h2, h3⟩ := ih _ _ inv2 hnd'.2 hside1 hside2 hside3
      refine ⟨h1, h2.mono hmono, ?_⟩
      intro n r hn hiso
      simp only [List.mem_cons] at hn
      rcases hn with rfl | hn
      · obtain ⟨hm1, _⟩ := step_made inv hiso hD0
        rw [hc] at hm1
        simp only [Created.made.injEq] at hm1
        subst hm1
        exact eachExtract_preserve ns _ (by simp [FS.set]) (others_ne r hiso)
      · exact h3 n r hn hiso
    | skip =>
      simp only
      obtain ⟨h1, h2, h3⟩ := ih _ _ inv1 hnd'.2 hside1 hside2 hside3
      refine ⟨h1, h2.mono hmono, ?_⟩
      intro n r hn hiso
      simp only [List.mem_cons] at hn
      rcases hn with rfl | hn
      · obtain ⟨hm1, _⟩ := step_made inv hiso hD0
        rw [hc] at hm1; cases hm1
      · exact h3 n r hn hiso
    | err =>
      have hskip : pol = .skip := by
        rcases hpol with h | h
        · exact h
        · obtain ⟨r, hiso⟩ := h n0 (hnsN n0 (by simp))
          obtain ⟨hm1, _⟩ := step_made inv hiso hD0
          rw [hc] at hm1; cases hm1
      subst hskip
      simp only
      obtain ⟨h1, h2, h3⟩ := ih _ _ inv1 hnd'.2 hside1 hside2 hside3
      refine ⟨h1, h2.mono hmono, ?_⟩
      intro n r hn hiso
      simp only [List.mem_cons] at hn
      rcases hn with rfl | hn
      · obtain ⟨hm1, _⟩ := step_made inv hiso hD0
        rw [hc] at hm1; cases hm1
      · exact h3 n r hn hiso

theorem wf_fresh (out : PathC) : WF out (freshFS out) := by
  intro q hq; simp [freshFS, List.isPrefixOf_iff_prefix, hq]

theorem fresh_fresh (out : PathC) : Fresh out (freshFS out) := by
  intro q hq
  have : ¬ q <+: out := fun h => not_below_of_prefix h hq
  simp [freshFS, List.isPrefixOf_iff_prefix, this]

/-- structure of a whole-archive run that completes its first loop -/
theorem whole_G {pol : Policy} {os : OS} {out : PathC} {fs : FS} {a : Archive}
    (hwf : WF out fs) (hfresh : Fresh out fs) (hnd : a.names.Nodup)
    (hpol : pol = .skip ∨ ∀ m ∈ a.names, ∃ r, Isolated os out a.names m r) :
    ∃ fs1 ex, createAll pol os out fs a.names = (fs1, some ex) ∧
      Inv out (fun m => m ∈ a.names ∨ False) fs1 ∧
      (∀ x ∈ ex, x.1 ∈ a.names ∧ createPath out x.1 = some x.2 ∧ ∃ b, fs1 x.2 = some (.file b)) ∧
      (∀ n r, n ∈ a.names → Isolated os out a.names n r →
        ex.lookup n = some (out ++ r) ∧ fs1 (out ++ r) = some (.file [])) := by
  have inv0 := Inv.of_fresh hwf hfresh
  obtain ⟨ex, hex, hfiles, hmade⟩ := createAll_G hpol a.names fs _ inv0 hnd (by simp) (by simp)
    (fun m hm => hm)
  obtain ⟨_, _, hpaths⟩ := createAll_frame (pol := pol) (os := os) a.names hwf
  have hinv := createAll_inv (pol := pol) (os := os) a.names fs _ inv0
  generalize createAll pol os out fs a.names = res at hex hfiles hmade hpaths hinv
  obtain ⟨fs1, oex⟩ := res
  simp only at hex
  subst hex
  exact ⟨fs1, ex, rfl, hinv, fun x hx => ⟨(hfiles x hx).1, hpaths ex rfl x hx, (hfiles x hx).2⟩, hmade⟩

theorem whole_ok {pol : Policy} {os : OS} {out : PathC} {fs : FS} {a : Archive}
    (hwf : WF out fs) (hfresh : Fresh out fs) (hnd : a.names.Nodup)
    (hpol : pol = .skip ∨ ∀ m ∈ a.names, ∃ r, Isolated os out a.names m r) :
    (wholeExtract pol os out fs a).2 = true := by
  obtain ⟨fs1, ex, hca, _, hfiles, _⟩ := whole_G hwf hfresh hnd hpol
  unfold wholeExtract
  rw [hca]
  exact (appendPieces_G ex a.pieces fs1 (fun x hx => (hfiles x hx).2.2)).1

/-- after a completed whole-archive run every file below `out` sits at a member's path -/
theorem whole_files_below {pol : Policy} {os : OS} {out : PathC} {fs : FS} {a : Archive}
    (hwf : WF out fs) (hfresh : Fresh out fs) (hnd : a.names.Nodup)
    (hpol : pol = .skip ∨ ∀ m ∈ a.names, ∃ r, Isolated os out a.names m r) :
    ∀ q b, Below out q → (wholeExtract pol os out fs a).1 q = some (.file b) →
      ∃ m ∈ a.names, ∃ r, norm m = some r ∧ q = out ++ r := by
  obtain ⟨fs1, ex, hca, hinv, hfiles, _⟩ := whole_G hwf hfresh hnd hpol
  intro q b hbel hq
  unfold wholeExtract at hq
  rw [hca] at hq
  simp only at hq
  obtain ⟨_, _, h3⟩ := appendPieces_G ex a.pieces fs1 (fun x hx => (hfiles x hx).2.2)
  cases hfq : fs1 q with
  | none => rw [h3 q (by simp [hfq]), hfq] at hq; cases hq
  | some nd =>
    cases nd with
    | dir => rw [h3 q (by simp [hfq]), hfq] at hq; cases hq
    | file b1 =>
      obtain ⟨m, r, hm, hr, hqr⟩ := hinv.files q b1 hbel hfq
      exact ⟨m, by simpa using hm, r, hr, hqr⟩

/-- **C16.member** — the second clause, member by member.  From a fresh output directory, for an
    archive with distinct names: a member that is `Isolated` (no "..", at least one normal component,
    representable by the OS, and no OTHER member's normalised path equal to, a prefix of, or an
    extension of its own) ends up at `out/norm(name)` with EXACTLY its content, in the whole-archive
    form and in the name/glob form for every matcher selecting it — PROVIDED OS errors on other members
    are skipped (`pol = .skip`), or every member of the archive is isolated (then no OS error occurs and
    the policy does not matter). -/
theorem member (pol : Policy) (os : OS) (out : PathC) (fs : FS) (a : Archive)
    (hwf : WF out fs) (hfresh : Fresh out fs) (hnd : a.names.Nodup)
    (hpol : pol = .skip ∨ ∀ m ∈ a.names, ∃ r, Isolated os out a.names m r)
    (n : Bytes) (r : List Bytes) (hn : n ∈ a.names) (hiso : Isolated os out a.names n r) :
    (wholeExtract pol os out fs a).1 (out ++ r) = some (.file (a.content n)) ∧
    ∀ sel : Bytes → Bool, sel n = true →
      (listedExtract pol os out fs a sel).2 = true ∧
      (listedExtract pol os out fs a sel).1 (out ++ r) = some (.file (a.content n)) := by
  have inv0 := Inv.of_fresh hwf hfresh
  constructor
  · obtain ⟨fs1, ex, hca, _, hfiles, hmade⟩ := whole_G hwf hfresh hnd hpol
    obtain ⟨hl, hf⟩ := hmade n r hn hiso
    unfold wholeExtract
    rw [hca]
    simp only
    obtain ⟨_, h2, _⟩ := appendPieces_G ex a.pieces fs1 (fun x hx => (hfiles x hx).2.2)
    rw [h2 _ _ hf]
    have hfilt : a.pieces.filter (fun x => decide (ex.lookup x.1 = some (out ++ r))) =
        a.pieces.filter (fun x => decide (x.1 = n)) := by
      apply List.filter_congr
      intro x _
      by_cases hx : x.1 = n
      · simp [hx, hl]
      · have : ex.lookup x.1 ≠ some (out ++ r) := by
          intro hlk
          have hmem := lookup_mem hlk
          exact iso_path_ne hiso (hfiles _ hmem).1 hx (hfiles _ hmem).2.1
        simp [hx, this]
    rw [hfilt]
    simp [Archive.content]
  · intro sel hsel
    unfold listedExtract
    have hsub : ∀ m ∈ a.names.filter sel, m ∈ a.names := fun m hm => (List.mem_filter.mp hm).1
    obtain ⟨h1, _, h3⟩ := eachExtract_G (content := a.content) hpol (a.names.filter sel) fs _ inv0
      (hnd.filter _) (by simp) (by simp) hsub
    exact ⟨h1, h3 n r (List.mem_filter.mpr ⟨hn, hsel⟩) hiso⟩

/-- the files of `X` are exactly: what `fs0` had outside the output directory, and `out/norm(n) ↦
    content n` for the members -/
def ExactlyMembers (out : PathC) (fs0 : FS) (a : Archive) (X : FS) : Prop :=
  (∀ n ∈ a.names, ∀ r, norm n = some r → X (out ++ r) = some (.file (a.content n))) ∧
  (∀ q b, X q = some (.file b) →
    (¬ Below out q ∧ fs0 q = some (.file b)) ∨
    ∃ n ∈ a.names, ∃ r, norm n = some r ∧ q = out ++ r ∧ b = a.content n)

/-- **C16.benign** — for a set of member names without "..", representable, whose normalised paths
    are pairwise distinct and not prefixes of one another (every member `Isolated`), BOTH forms of
    extraction, under EITHER error policy, from a fresh output directory, end with status 0 and yield
    exactly `out/norm(name) ↦ content(name)` (no other file below `out`; nothing changed elsewhere). -/
theorem benign (pol : Policy) (os : OS) (out : PathC) (fs : FS) (a : Archive)
    (hwf : WF out fs) (hfresh : Fresh out fs) (hnd : a.names.Nodup)
    (hall : ∀ m ∈ a.names, ∃ r, Isolated os out a.names m r) :
    ((wholeExtract pol os out fs a).2 = true ∧
      ExactlyMembers out fs a (wholeExtract pol os out fs a).1) ∧
    ((listedExtract pol os out fs a (fun _ => true)).2 = true ∧
      ExactlyMembers out fs a (listedExtract pol os out fs a (fun _ => true)).1) := by
  have inv0 := Inv.of_fresh hwf hfresh
  have hmem := fun n r hn hiso => member pol os out fs a hwf hfresh hnd (Or.inr hall) n r hn hiso
  have hfirst : ∀ n ∈ a.names, ∀ r, norm n = some r → Isolated os out a.names n r := by
    intro n hn r hr
    obtain ⟨r', hiso⟩ := hall n hn
    have := hiso.hnorm
    rw [hr] at this; cases this; exact hiso
  obtain ⟨hfw, hfl⟩ := frame pol os out fs a (fun _ => true) hwf
  have hsub : ∀ m ∈ a.names.filter (fun _ => true), m ∈ a.names := fun m hm => (List.mem_filter.mp hm).1
  obtain ⟨hl1, hl2, _⟩ := eachExtract_G (content := a.content) (pol := pol) (Or.inr hall)
    (a.names.filter (fun _ => true)) fs _ inv0 (hnd.filter _) (by simp) (by simp) hsub
  refine ⟨⟨whole_ok hwf hfresh hnd (Or.inr hall), ?_, ?_⟩, ⟨hl1, ?_, ?_⟩⟩
  · intro n hn r hr
    exact (hmem n r hn (hfirst n hn r hr)).1
  · intro q b hq
    by_cases hbel : Below out q
    · right
      obtain ⟨m, hm, r, hr, rfl⟩ := whole_files_below hwf hfresh hnd (Or.inr hall) q b hbel hq
      refine ⟨m, hm, r, hr, rfl, ?_⟩
      rw [(hmem m r hm (hfirst m hm r hr)).1] at hq
      cases hq; rfl
    · left
      exact ⟨hbel, by rw [← hfw q hbel]; exact hq⟩
  · intro n hn r hr
    exact ((hmem n r hn (hfirst n hn r hr)).2 (fun _ => true) rfl).2
  · intro q b hq
    by_cases hbel : Below out q
    · right
      obtain ⟨m, r, hm, hr, rfl⟩ := hl2.files q b hbel hq
      have hm' : m ∈ a.names := by
        rcases hm with hm | hm
        · exact hsub m hm
        · exact hm.elim
      refine ⟨m, hm', r, hr, rfl, ?_⟩
      rw [((hmem m r hm' (hfirst m hm' r hr)).2 (fun _ => true) rfl).2] at hq
      cases hq; rfl
    · left
      exact ⟨hbel, by rw [← hfl q hbel]; exact hq⟩

/-! ### Deciding `Isolated`, examples, and the full second clause (D18) -/

theorem isolatedB_sound {os : OS} {out : PathC} {N : List Bytes} {n : Bytes}
    (h : isolatedB os out N n = true) : ∃ r, Isolated os out N n r := by
  unfold isolatedB at h
  cases hn : norm n with
  | none => simp [hn] at h
  | some r =>
    simp only [hn, Bool.and_eq_true, Bool.not_eq_true', List.all_eq_true] at h
    obtain ⟨⟨⟨h1, h2⟩, h3⟩, h4⟩ := h
    refine ⟨r, hn, ?_, h2, h3, ?_⟩
    · intro hr; simp [hr] at h1
    · intro m hm hne r' hr'
      have := h4 m hm
      simp only [hr', Bool.or_eq_true, beq_iff_eq, hne, false_or, Bool.and_eq_true,
        Bool.not_eq_true'] at this
      constructor
      · intro hp; rw [← List.isPrefixOf_iff_prefix] at hp; rw [hp] at this; simp at this
      · intro hp; rw [← List.isPrefixOf_iff_prefix] at hp; rw [hp] at this; simp at this

/-- the hypotheses of `benign` are met by a concrete archive: members "a/b", "/c" and "./a/d" (two of
    them share the directory `a`; one is absolute, one starts with "."), interleaved blocks, a Linux-like
    OS, output directory /t/o -/
example :
    let out : PathC := [[116], [111]]
    let a : Archive := { names := [[46, 47, 97, 47, 100], [47, 99], [97, 47, 98]],
                         pieces := [([97, 47, 98], [1]), ([47, 99], [2]), ([97, 47, 98], [3])] }
    WF out (freshFS out) ∧ Fresh out (freshFS out) ∧ a.names.Nodup ∧
    ∀ m ∈ a.names, ∃ r, Isolated (OS.unix 255 4095) out a.names m r := by
  refine ⟨wf_fresh _, fresh_fresh _, by decide, ?_⟩
  intro m hm
  apply isolatedB_sound
  simp only [List.mem_cons, List.not_mem_nil, or_false] at hm
  rcases hm with rfl | rfl | rfl <;> decide

/-- and on that archive the model really produces the three files (evaluation of the definitions) -/
example :
    let out : PathC := [[116], [111]]
    let a : Archive := { names := [[46, 47, 97, 47, 100], [47, 99], [97, 47, 98]],
                         pieces := [([97, 47, 98], [1]), ([47, 99], [2]), ([97, 47, 98], [3])] }
    (wholeExtract .abort (OS.unix 255 4095) out (freshFS out) a).1 [[116], [111], [97], [98]]
      = some (.file [1, 3]) := by decide

/-- THE FULL SECOND CLAUSE of the property, as a statement about the extractor with error policy
    `pol`: whatever ELSE the archive contains, a member that is isolated is extracted with exactly
    its content (whole-archive form, and every name/glob form selecting it). -/
def Full (pol : Policy) : Prop :=
  ∀ (os : OS) (out : PathC) (fs : FS) (a : Archive), WF out fs → Fresh out fs → a.names.Nodup →
    ∀ n ∈ a.names, ∀ r, Isolated os out a.names n r →
      (wholeExtract pol os out fs a).1 (out ++ r) = some (.file (a.content n)) ∧
      ∀ sel : Bytes → Bool, sel n = true →
        (listedExtract pol os out fs a sel).1 (out ++ r) = some (.file (a.content n))

/-- with OS errors skipped the full clause holds -/
theorem full_skip : Full .skip := by
  intro os out fs a hwf hfresh hnd n hn r hiso
  obtain ⟨h1, h2⟩ := member .skip os out fs a hwf hfresh hnd (Or.inl rfl) n r hn hiso
  exact ⟨h1, fun sel hsel => (h2 sel hsel).2⟩

/-- **D18** — the code BEFORE `fix: D18` (`?` on the OS error: policy `.abort`) does NOT satisfy the
    full clause: archive {"a" ↦ [1], "xxxx", "z" ↦ [2]} on an OS whose components are limited to 3 bytes
    (the shape of `ENAMETOOLONG`; on Linux: a 256-byte component): `a` is created, `xxxx` fails, the
    command aborts before any content is written — `a` stays EMPTY and `z` is never created. -/
theorem full_abort_fails : ¬ Full .abort := by
  intro h
  let out : PathC := [[111]]
  let a : Archive := { names := [[97], [120, 120, 120, 120], [122]],
                       pieces := [([97], [1]), ([122], [2])] }
  have hiso : ∃ r, Isolated (OS.unix 3 64) out a.names [97] r := isolatedB_sound (by decide)
  obtain ⟨r, hiso⟩ := hiso
  have hr : r = [[97]] := by
    have := hiso.hnorm
    have h2 : norm [97] = some [[97]] := by decide
    rw [h2] at this; cases this; rfl
  subst hr
  have := (h (OS.unix 3 64) out (freshFS out) a (wf_fresh _) (fresh_fresh _) (by decide) [97]
    (by decide) [[97]] hiso).1
  have hreal : (wholeExtract .abort (OS.unix 3 64) out (freshFS out) a).1 (out ++ [[97]])
      = some (.file []) := by decide
  rw [hreal] at this
  cases this

/-- what the aborted run leaves behind on that witness: status 1, `a` empty, `z` absent -/
example :
    let out : PathC := [[111]]
    let a : Archive := { names := [[97], [120, 120, 120, 120], [122]],
                         pieces := [([97], [1]), ([122], [2])] }
    let res := wholeExtract .abort (OS.unix 3 64) out (freshFS out) a
    res.2 = false ∧ res.1 [[111], [97]] = some (.file []) ∧ res.1 [[111], [122]] = none := by decide

/-- **C16.member_partial** — the clause as far as it holds under the `.abort` policy: an isolated
    member is extracted exactly, under the extra hypothesis that EVERY member of the archive is
    isolated (no member the OS refuses, no `a` next to `a/b`).  (= `member` with `pol = .abort`.) -/
theorem member_partial (os : OS) (out : PathC) (fs : FS) (a : Archive)
    (hwf : WF out fs) (hfresh : Fresh out fs) (hnd : a.names.Nodup)
    (hall : ∀ m ∈ a.names, ∃ r, Isolated os out a.names m r)
    (n : Bytes) (r : List Bytes) (hn : n ∈ a.names) (hiso : Isolated os out a.names n r) :
    (wholeExtract .abort os out fs a).1 (out ++ r) = some (.file (a.content n)) ∧
    ∀ sel : Bytes → Bool, sel n = true →
      (listedExtract .abort os out fs a sel).1 (out ++ r) = some (.file (a.content n)) := by
  obtain ⟨h1, h2⟩ := member .abort os out fs a hwf hfresh hnd (Or.inr hall) n r hn hiso
  exact ⟨h1, fun sel hsel => (h2 sel hsel).2⟩

end MlaModel.C16

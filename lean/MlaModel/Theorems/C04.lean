/-
  C04 — repair in its default (authenticated) mode over an encrypted archive corrupted ANYWHERE
  (not merely cut): only data of chunks whose tag verified is used, contiguously from the start of
  the stream, stopping at the first chunk that fails; the unauthenticated mode returns at least as
  much and the authenticated result is a prefix of it.

  Setting: `e` is ANY byte string standing in for `sealS P C p`.  Hypotheses, all explicit:
    * `hTag`               tags have `tagLen` bytes;
    * `Unforged P C p e`   integrity (Proofs/EncryptTamper.lean): a chunk slot of `e` that
                           authenticates under its own index holds the genuine chunk of that index;
    * for the statements about `p` itself, that the DATA bytes of chunk 0 are genuine
      (`e.take chunk = (sealS P C p).take chunk`): `EncryptionLayerFailSafeReader::new` loads
      chunk 0 WITHOUT verifying its tag (known finding D15), so nothing can be said about those
      `chunk` bytes otherwise — `not_full` below is the counterexample.

  Statements:
    * `auth_genuine`   1. `fsAuth P C e` = decryption of the first `chunk` bytes of `e` (unverified)
                          followed by the genuine plaintext chunks `1 … j-1`, `j = stopIdx P C e` the
                          first slot `≥ 1` that fails (`stopIdx_spec`; `auth_genuine_at`: any such `j`);
      `auth_chunk0`       with chunk 0 genuine: `C02.Delivered p (fsAuth P C e)` — a prefix of `p` cut
                          at a chunk boundary (`auth_chunk0_long`), or, only when `p` is shorter than
                          one chunk, exactly what the genuine stream gives (`auth_chunk0_short`);
    * `files`          2. composition with C02: every file repair writes is a prefix of the original
                          file, complete unless reported unfinished; its calls to the writer are accepted;
    * `stop`           3. `k ≥ 1` whole genuine slots followed by ANYTHING whose first slot fails the
                          check of chunk `k` gives exactly what the cut before slot `k` gives, namely
                          `p.take (k * chunk)` (no hypothesis on the rest: nothing after the failed
                          chunk is looked at); `stop_altered`: under `Unforged`, "fails" = "differs
                          from the genuine chunk `k`";
    * `unauth_ge`      4. `fsAuth P C e <+: fsUnauth P C (|e|+1) 0 e` for ALL `e`; and
      `repair_mono`       `Repair.convert` is monotone in its input for ARBITRARY byte strings
                          `d₁ <+: d₂` (no reference to a genuine stream, any end conditions): the
                          general statement is TRUE; hence `unauth_ge_files`: every file recovered in
                          authenticated mode is recovered in unauthenticated mode with at least the
                          same content — for every `e`, no hypothesis at all;
    * `not_full`       5. `Full` (the property without the chunk-0 hypothesis) is FALSE.
-/
import MlaModel.Proofs.C04
import MlaModel.Theorems.C02
import MlaModel.Theorems.C03
import MlaModel.Theorems.EncryptFailSafe
namespace MlaModel.C04
open MlaModel

/-- the first slot index `≥ 1` of `e` that does not authenticate (running off the end of `e`
    counts as failing) -/
def stopIdx (P : Params) (C : EncPrims) (e : Bytes) : Nat := firstFail P C e (e.length + 1) 1

/-- `stopIdx` is the first failing slot from 1 on -/
theorem stopIdx_spec (P : Params) (C : EncPrims) (e : Bytes) :
    1 ≤ stopIdx P C e ∧
    (∀ k, 1 ≤ k → k < stopIdx P C e → ∃ pt, openChunk P C k (win P e k) = .ok pt) ∧
    openChunk P C (stopIdx P C e) (win P e (stopIdx P C e)) = .error .wrongTag :=
  ⟨firstFail_ge P C e _ 1, fun k h1 h2 => firstFail_ok P C e _ 1 k h1 h2,
    firstFail_fail P C e _ 1 (by omega)⟩

section
variable (P : Params) (C : EncPrims) (hTag : ∀ i c, (C.tag i c).length = P.tagLen)
include hTag

/-! ## 1. What authenticated fail-safe decryption delivers on arbitrary bytes -/

/-- for ANY `j ≥ 1` such that slots `1 … j-1` of `e` authenticate and slot `j` does not -/
theorem auth_genuine_at (p e : Bytes) (hU : Unforged P C p e) (j : Nat) (hj : 1 ≤ j)
    (hok : ∀ k, 1 ≤ k → k < j → ∃ pt, openChunk P C k (win P e k) = .ok pt)
    (hfail : openChunk P C j (win P e j) = .error .wrongTag) :
    fsAuth P C e = xorAt (C.ks 0) 0 (e.take P.chunk) ++
      ((List.range (j - 1)).map fun k => ptChunk P p (k + 1)).flatten := by
  rw [chunks_flatten, Nat.sub_add_cancel hj]
  exact fsAuth_unforged P C hTag p e hU j hj hok hfail

/-- **C04.auth_genuine** — chunk 0 as loaded by `new` (no verification, D15), then the GENUINE
    plaintext chunks `1 … stopIdx-1`; nothing from slot `stopIdx` on is delivered. -/
theorem auth_genuine (p e : Bytes) (hU : Unforged P C p e) :
    fsAuth P C e = xorAt (C.ks 0) 0 (e.take P.chunk) ++
      ((List.range (stopIdx P C e - 1)).map fun k => ptChunk P p (k + 1)).flatten := by
  obtain ⟨h1, h2, h3⟩ := stopIdx_spec P C e
  exact auth_genuine_at P C hTag p e hU _ h1 h2 h3

/-- the same, the chunks written as a slice of `p` -/
theorem auth_genuine_slice (p e : Bytes) (hU : Unforged P C p e) :
    fsAuth P C e = xorAt (C.ks 0) 0 (e.take P.chunk) ++
      (p.take (stopIdx P C e * P.chunk)).drop P.chunk := by
  obtain ⟨h1, h2, h3⟩ := stopIdx_spec P C e
  exact fsAuth_unforged P C hTag p e hU _ h1 h2 h3

/-- chunk-0 data genuine, `p` at least one chunk: a prefix of `p` cut at a chunk boundary -/
theorem auth_chunk0_long (p e : Bytes) (hU : Unforged P C p e)
    (h0 : e.take P.chunk = (sealS P C p).take P.chunk) (hp : P.chunk ≤ p.length) :
    fsAuth P C e = p.take (stopIdx P C e * P.chunk) :=
  fsAuth_unforged_long P C hTag p e hU h0 hp

/-- chunk-0 data genuine, `p` shorter than one chunk: exactly what the genuine stream gives — `p`
    followed by the decrypted beginning of tag 0 (`EncFS.auth_exact`) -/
theorem auth_chunk0_short (p e : Bytes) (hU : Unforged P C p e)
    (h0 : e.take P.chunk = (sealS P C p).take P.chunk) (hp : p.length < P.chunk) :
    fsAuth P C e = p ++
      xorAt (C.ks 0) p.length ((C.tag 0 (xorAt (C.ks 0) 0 p)).take (P.chunk - p.length)) := by
  rw [fsAuth_unforged_short P C hTag p e hU h0 hp, fsAuth_seal_exact P C hTag p]

/-- **C04.auth_chunk0** — with the data bytes of chunk 0 genuine, what is delivered is a truncation
    of `p`, or `p` followed by junk (the latter only when `p` is shorter than one chunk): exactly the
    hypothesis `Delivered` of the repair theorems C02/C05. -/
theorem auth_chunk0 (p e : Bytes) (hU : Unforged P C p e)
    (h0 : e.take P.chunk = (sealS P C p).take P.chunk) : C02.Delivered p (fsAuth P C e) :=
  fsAuth_delivered P C hTag p e hU h0

/-- … and never a byte beyond `p` when `p` fills chunk 0 -/
theorem auth_chunk0_prefix (p e : Bytes) (hU : Unforged P C p e)
    (h0 : e.take P.chunk = (sealS P C p).take P.chunk) (hp : P.chunk ≤ p.length) :
    fsAuth P C e <+: p := by
  rw [auth_chunk0_long P C hTag p e hU h0 hp]; exact List.take_prefix _ _

/-! ## 3. Nothing decoded after a failed chunk is used -/

/-- **C04.stop**, general form: after `k ≥ 1` whole genuine slots, ANY continuation `tail` whose
    first slot fails the check of chunk `k` gives what the stream cut before slot `k` gives: the
    first `k` plaintext chunks.  (No integrity hypothesis: the bytes after the failed slot are
    never looked at.) -/
theorem stop_tail (p : Bytes) (k : Nat) (hk1 : 1 ≤ k) (hk : k ≤ nLast P p) (tail : Bytes)
    (hfail : openChunk P C k (tail.take (P.chunk + P.tagLen)) = .error .wrongTag) :
    fsAuth P C ((sealS P C p).take (k * (P.chunk + P.tagLen)) ++ tail) =
      fsAuth P C ((sealS P C p).take (k * (P.chunk + P.tagLen))) ∧
    fsAuth P C ((sealS P C p).take (k * (P.chunk + P.tagLen))) = p.take (k * P.chunk) := by
  have h1 := fsAuth_stop P C hTag p k hk1 hk tail hfail
  have h2 := fsAuth_stop P C hTag p k hk1 hk [] (by simpa using openChunk_nil P C k)
  rw [List.append_nil] at h2
  exact ⟨h1.trans h2.symm, h2⟩

/-- **C04.stop** — `e = good ++ bad ++ anything`, `good` = `k ≥ 1` whole genuine slots, `bad` a
    whole slot that fails: the result is that of `good` alone, whatever `anything` is. -/
theorem stop (p : Bytes) (k : Nat) (hk1 : 1 ≤ k) (hk : k ≤ nLast P p) (bad anything : Bytes)
    (hbl : bad.length = P.chunk + P.tagLen) (hfail : openChunk P C k bad = .error .wrongTag) :
    fsAuth P C ((sealS P C p).take (k * (P.chunk + P.tagLen)) ++ bad ++ anything) =
      fsAuth P C ((sealS P C p).take (k * (P.chunk + P.tagLen))) := by
  rw [List.append_assoc]
  exact (stop_tail P C hTag p k hk1 hk (bad ++ anything) (by rw [List.take_left' hbl]; exact hfail)).1

/-- under the integrity hypothesis "fails" is "differs from the genuine chunk": altering slot `k`
    in any way gives exactly what cutting before slot `k` gives -/
theorem stop_altered (p : Bytes) (k : Nat) (hk1 : 1 ≤ k) (hk : k ≤ nLast P p) (tail : Bytes)
    (hU : Unforged P C p ((sealS P C p).take (k * (P.chunk + P.tagLen)) ++ tail))
    (hne : tail.take (P.chunk + P.tagLen) ≠ scChunk P C p k) :
    fsAuth P C ((sealS P C p).take (k * (P.chunk + P.tagLen)) ++ tail) = p.take (k * P.chunk) := by
  have hc := P.hchunk
  obtain ⟨h1, h2, h3⟩ := nLast_spec P p
  have hkc : k * P.chunk ≤ nLast P p * P.chunk := Nat.mul_le_mul_right _ hk
  have hkT : k * P.tagLen ≤ nLast P p * P.tagLen := Nat.mul_le_mul_right _ hk
  have hgl : ((sealS P C p).take (k * (P.chunk + P.tagLen))).length = k * (P.chunk + P.tagLen) := by
    rw [List.length_take, sealS_length P C hTag]
    simp only [Nat.mul_add, Nat.add_mul]; omega
  have hwk : win P ((sealS P C p).take (k * (P.chunk + P.tagLen)) ++ tail) k =
      tail.take (P.chunk + P.tagLen) := by
    simp only [win]; rw [List.drop_left' hgl]
  apply fsAuth_stop P C hTag p k hk1 hk tail
  cases hop : openChunk P C k (tail.take (P.chunk + P.tagLen)) with
  | error er => rw [openChunk_err hop]
  | ok pt =>
    exfalso
    rw [← hwk] at hop hne
    exact hne (hU k pt hop).2

end

/-! ## 4. The unauthenticated mode returns at least as much -/

/-- **C04.unauth_ge** (streams) — for ALL byte strings, no hypothesis. -/
theorem unauth_ge (P : Params) (C : EncPrims) (e : Bytes) :
    fsAuth P C e <+: fsUnauth P C (e.length + 1) 0 e :=
  EncFS.auth_prefix_unauth P C e

/-- **Repair is monotone in what it is given — for ARBITRARY byte strings** `d₁ <+: d₂`, whatever
    the end conditions: every file recovered from `d₁` is recovered from `d₂` with at least the same
    content.  (C05.mono is the special case where `d₂` is `Delivered` from a genuine stream.)
    Reason: the loop is deterministic and reads left to right; both runs are in the same state
    until `d₁` runs out, the run over `d₁` then stops (keeping the part of a content block it has),
    and whatever the run over `d₂` does afterwards only appends. -/
theorem repair_mono (P : Params) (H : Bytes → Bytes) (utf8 : Bytes → Bool) (d₁ d₂ : Bytes)
    (e₁ e₂ : Bool) (h : d₁ <+: d₂) :
    ∀ name c₁, (name, c₁) ∈ specOf (Repair.convert P H utf8 d₁ e₁).ops →
      ∃ c₂, (name, c₂) ∈ specOf (Repair.convert P H utf8 d₂ e₂).ops ∧ c₁ <+: c₂ :=
  convert_mono P H utf8 d₁ d₂ e₁ e₂ h

/-- … position by position: the list of files recovered from `d₁` is matched, in order, by the
    first files recovered from `d₁ ++ t` (same output id, same name, content a prefix) -/
theorem repair_mono_files (P : Params) (H : Bytes → Bytes) (utf8 : Bytes → Bool) (d₁ t : Bytes)
    (e₁ e₂ : Bool) :
    FilesLe (specOps (Repair.loop P H utf8 e₁ (d₁.length + 1) d₁ {}).1.ops).files
      (specOps (Repair.loop P H utf8 e₂ ((d₁ ++ t).length + 1) (d₁ ++ t) {}).1.ops).files :=
  convert_mono_files P H utf8 d₁ t e₁ e₂

/-- **C04.unauth_ge** (files) — for EVERY byte string `e` in place of the sealed stream (no
    hypothesis on `e`, on the primitives or on the archive): every file repair recovers in
    authenticated mode is recovered in unauthenticated mode with at least the same content. -/
theorem unauth_ge_files (Pe : Params) (C : EncPrims) (P : Params) (H : Bytes → Bytes)
    (utf8 : Bytes → Bool) (e : Bytes) (e₁ e₂ : Bool) :
    ∀ name c₁, (name, c₁) ∈ specOf (Repair.convert P H utf8 (fsAuth Pe C e) e₁).ops →
      ∃ c₂, (name, c₂) ∈
        specOf (Repair.convert P H utf8 (fsUnauth Pe C (e.length + 1) 0 e) e₂).ops ∧ c₁ <+: c₂ :=
  repair_mono P H utf8 _ _ e₁ e₂ (unauth_ge Pe C e)

/-! ## 2. Composition with repair (C02) -/

section
variable (P : Params) (H : Bytes → Bytes) (utf8 : Bytes → Bool) (ops : List Op)
variable (hH : ∀ b, (H b).length = hashLen) (hwf : ∀ op ∈ ops, op.WF utf8)
  (hacc : AllAccepted P H ops) (hfin : ops.getLast? = some .finalize)
  (hlen : ops.length < U64) (hpos : (Writer.run P H ops).2.2.length < U64)
  (C : EncPrims) (hTag : ∀ i c, (C.tag i c).length = P.tagLen)
include hH hwf hacc hfin hlen hpos hTag

/-- **C04.files** — `ops` an accepted op sequence ending with `finalize`, `S` the block stream it
    emitted, `e` ANY corruption of `sealS P C S` that is `Unforged` and keeps the data bytes of
    chunk 0: repairing from what authenticated fail-safe decryption delivers issues only accepted
    calls to the output writer, and every file written is an original file with a prefix of its
    content — all of it unless the file is reported unfinished. -/
theorem files (e : Bytes) (endErr : Bool)
    (hU : Unforged P C (Writer.run P H ops).2.2 e)
    (h0 : e.take P.chunk = (sealS P C (Writer.run P H ops).2.2).take P.chunk) :
    (AllAccepted P H (Repair.convert P H utf8 (fsAuth P C e) endErr).ops ∧
     (Repair.convert P H utf8 (fsAuth P C e) endErr).ops.getLast? = some .finalize ∧
     (∀ op ∈ (Repair.convert P H utf8 (fsAuth P C e) endErr).ops, op.WF utf8)) ∧
    (∀ name c', (name, c') ∈ specOf (Repair.convert P H utf8 (fsAuth P C e) endErr).ops →
      ∃ c, (name, c) ∈ specOf ops ∧ c' <+: c ∧
        (name ∉ (Repair.convert P H utf8 (fsAuth P C e) endErr).unfinished → c' = c)) ∧
    ((specOf (Repair.convert P H utf8 (fsAuth P C e) endErr).ops).map (·.1)).Nodup :=
  have hd := auth_chunk0 P C hTag _ e hU h0
  ⟨C02.accepted P H utf8 ops hH hwf hacc hfin hlen hpos _ endErr hd,
   C02.sound P H utf8 ops hH hwf hacc hfin hlen hpos _ endErr hd,
   C02.names_nodup P H utf8 ops hH hwf hacc hfin hlen hpos _ endErr hd⟩

end

/-! ## 5. Without the chunk-0 hypothesis the property is false -/

/-- the property at this layer WITHOUT the hypothesis on chunk 0: "whatever `Unforged` bytes are
    presented, authenticated fail-safe decryption delivers a truncation of the plaintext or the
    plaintext followed by junk" -/
def Full (P : Params) (C : EncPrims) : Prop :=
  ∀ p e : Bytes, Unforged P C p e → C02.Delivered p (fsAuth P C e)

section Example
open C03

/-- two chunks -/
def exP2 : Bytes := [10, 11, 12, 13, 14, 15]
/-- the genuine stream with the low bit of byte 1 (a data byte of chunk 0) flipped -/
def exBad0 : Bytes := (sealS exP exC exP2).set 1 ((sealS exP exC exP2).getD 1 0 ^^^ 1)

theorem exBad0_unforged : Unforged exP exC exP2 exBad0 := by
  apply unforged_of_check
  decide

/-- chunk 0 no longer authenticates, chunk 1 does, and the altered byte is delivered -/
example : (match openChunk exP exC 0 (win exP exBad0 0) with | .ok _ => true | .error _ => false) = false ∧
    fsAuth exP exC exBad0 = [10, 10, 12, 13, 14, 15] := by decide

/-- **¬ C04.Full**: the corrupted byte of chunk 0 comes out, followed by genuine chunk 1 -/
theorem not_full : ¬ Full exP exC := by
  intro h
  have hd := h exP2 exBad0 exBad0_unforged
  have hv : fsAuth exP exC exBad0 = [10, 10, 12, 13, 14, 15] := by decide
  rw [hv] at hd
  rcases hd with hd | hd
  · have := List.prefix_iff_eq_take.1 hd; revert this; decide
  · have := List.prefix_iff_eq_take.1 hd; revert this; decide

/-! ### Non-vacuity -/

/-- `auth_genuine` on the tampered stream of C03 (a bit of chunk 1 flipped): slot 1 fails, so only
    chunk 0 comes out although chunk 2 is intact -/
example : stopIdx exP exC exBad = 1 ∧ fsAuth exP exC exBad = [10, 11, 12, 13] := by decide

example : fsAuth exP exC exBad = xorAt (exC.ks 0) 0 (exBad.take exP.chunk) ++
    ((List.range (stopIdx exP exC exBad - 1)).map fun k => ptChunk exP exPlain (k + 1)).flatten :=
  auth_genuine exP exC exLaws.tagLen exPlain exBad exUnforged

example : C02.Delivered exPlain (fsAuth exP exC exBad) :=
  auth_chunk0 exP exC exLaws.tagLen exPlain exBad exUnforged (by decide)

/-- a bit of chunk 2 flipped: chunks 0 and 1 come out -/
def exBad2 : Bytes := exGood.set 41 (exGood.getD 41 0 ^^^ 1)
theorem exBad2_unforged : Unforged exP exC exPlain exBad2 := by
  apply unforged_of_check
  decide
example : stopIdx exP exC exBad2 = 2 ∧ fsAuth exP exC exBad2 = [10, 11, 12, 13, 14, 15, 16, 17] := by
  decide
example : fsAuth exP exC exBad2 = exPlain.take (stopIdx exP exC exBad2 * exP.chunk) :=
  auth_chunk0_long exP exC exLaws.tagLen exPlain exBad2 exBad2_unforged (by decide) (by decide)

/-- `stop`: one genuine slot, a failing slot, then anything — here the genuine slot 2 follows -/
example (anything : Bytes) :
    fsAuth exP exC (exGood.take (1 * (exP.chunk + exP.tagLen)) ++ List.replicate 20 7 ++ anything) =
      fsAuth exP exC (exGood.take (1 * (exP.chunk + exP.tagLen))) :=
  stop exP exC exLaws.tagLen exPlain 1 (by decide) (by decide) _ anything (by decide) (by decide)

example : fsAuth exP exC (exGood.take 20 ++ List.replicate 20 7 ++ exGood.drop 40) = [10, 11, 12, 13] ∧
    fsAuth exP exC (exGood.take 20) = [10, 11, 12, 13] := by decide

/-- `stop_altered` on the tampered stream of C03 -/
example : fsAuth exP exC (exGood.take (1 * (exP.chunk + exP.tagLen)) ++ exBad.drop 20) =
    exPlain.take (1 * exP.chunk) :=
  stop_altered exP exC exLaws.tagLen exPlain 1 (by decide) (by decide) _
    (by apply unforged_of_check; decide) (by decide)

/-- `unauth_ge`: on the stream with chunk 1 damaged the authenticated mode stops after chunk 0, the
    unauthenticated one goes on (and delivers the damaged byte) -/
example : fsAuth exP exC exBad = [10, 11, 12, 13] ∧
    fsUnauth exP exC (exBad.length + 1) 0 exBad = [10, 11, 12, 13, 14, 14, 16, 17, 18, 16, 15, 14] := by
  decide

end Example

/-! ### `files` and `unauth_ge_files` on the example archive of C01 (427 bytes of blocks), sealed with
    100-byte chunks (5 chunks), bit 0 of byte 250 (inside chunk 2) flipped -/

section ExampleArchive
open C01 C03

/-- production constants except for the chunk size -/
def exPa : Params := { Params.prod with chunk := 100, hchunk := by decide }

set_option maxRecDepth 100000 in
theorem exPa_accepted : AllAccepted exPa exH exOps := by unfold AllAccepted; decide
set_option maxRecDepth 100000 in
theorem exPa_pos : (Writer.run exPa exH exOps).2.2.length < U64 := by decide
theorem exPa_tag : ∀ i c, (exC.tag i c).length = exPa.tagLen := fun _ _ => by
  simp [exC, exPa, Params.prod]

def exSealed : Bytes := sealS exPa exC (Writer.run exPa exH exOps).2.2
def exDamaged : Bytes := exSealed.set 250 (exSealed.getD 250 0 ^^^ 1)

set_option maxRecDepth 100000 in
theorem exDamaged_unforged : Unforged exPa exC (Writer.run exPa exH exOps).2.2 exDamaged := by
  apply unforged_of_check
  decide

set_option maxRecDepth 100000 in
theorem exDamaged_chunk0 : exDamaged.take exPa.chunk = exSealed.take exPa.chunk := by decide

/-- every file repair writes from the damaged archive is a prefix of the original file -/
example (endErr : Bool) (name c' : Bytes)
    (h : (name, c') ∈ specOf (Repair.convert exPa exH (fun _ => true) (fsAuth exPa exC exDamaged) endErr).ops) :
    ∃ c, (name, c) ∈ specOf exOps ∧ c' <+: c :=
  let ⟨c, h1, h2, _⟩ := (files exPa exH (fun _ => true) exOps exH_len exOps_wf exPa_accepted exOps_last
    exOps_len exPa_pos exC exPa_tag exDamaged endErr exDamaged_unforged exDamaged_chunk0).2.1 name c' h
  ⟨c, h1, h2⟩

set_option maxRecDepth 100000 in
/-- observed: two whole chunks (200 bytes) are used; file `c` is complete, `a` and `b` unfinished -/
example : (fsAuth exPa exC exDamaged).length = 200 ∧
    specOf (Repair.convert exPa exH (fun _ => true) (fsAuth exPa exC exDamaged) false).ops =
      [([97], [1, 2, 7]), ([98], [9]), ([99], [5, 6])] ∧
    (Repair.convert exPa exH (fun _ => true) (fsAuth exPa exC exDamaged) false).unfinished =
      [[97], [98]] := by decide

example (name c₁ : Bytes)
    (h : (name, c₁) ∈ specOf (Repair.convert exPa exH (fun _ => true) (fsAuth exPa exC exDamaged) false).ops) :
    ∃ c₂, (name, c₂) ∈ specOf (Repair.convert exPa exH (fun _ => true)
      (fsUnauth exPa exC (exDamaged.length + 1) 0 exDamaged) false).ops ∧ c₁ <+: c₂ :=
  unauth_ge_files exPa exC exPa exH (fun _ => true) exDamaged false false name c₁ h

end ExampleArchive

end MlaModel.C04

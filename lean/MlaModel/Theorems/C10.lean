/-
  C10 — history independence of the archive reader.

  "On an opened archive, any sequence of listing, opening files in any order and any number of
   times, reading them fully or partly with buffers of any sizes, abandoning a file midway and
   asking for hashes gives, for each file, the same bytes, size and hash as reading that file alone
   right after opening the archive."

  Setting: `ops` is an accepted op sequence ending with `finalize` (hypotheses of `C01.blocks`),
  `data` the plaintext stream it emitted, `ix` the index the writer built (`C01.archive`: it is what
  `parseFooter data` returns).  The reader `ArS σ` (MlaModel/ReaderS.lean) runs over ANY stream type
  `σ` whose `seek`/`read` behave like a cursor over `data` (`IsCursor Inv abs data`: reads may be
  SHORT, the stream may keep caches, …) and starts in ANY state `a₀` with `Inv a₀.src`, the index
  `ix` and no open handle (wherever `from_config` left the stream).

    * `Matches` / `RunMatches` : the specification of a history — a tiny state machine whose state is
      the open handle (name, bytes delivered so far), defined from `specOf ops` alone.
    * `history`       : for EVERY history `h`, the outputs of `ArS.run a₀ h` are matched step by step.
    * `same_as_alone` : after any history, opening a file and reading it with buffers of any sizes
      gives a prefix of its content — exactly its content with positive buffers until the end — as
      does the same thing done alone right after opening the archive;
      `hash_same_as_alone`, `size_same_as_alone`, `list_same_as_alone` likewise.
    * Model note: every operation other than `read` ends the open handle (`ReaderS.ArS.step`), as the
      borrow checker imposes in Rust.  (With a `get_hash` that kept the handle alive the property
      was false in the model: the hash lookup moves the stream under the handle.)

  Why it holds: `get_file` and `get_hash` start with an ABSOLUTE seek and `IsCursor.seek_ok` puts the
  stream at that offset whatever its state was; everything else is determined by the handle state and
  the abstract position (the `Good` invariant of the pure reader, `Proofs/ReaderCorrect`).
-/
import MlaModel.Proofs.ReaderS
import MlaModel.Theorems.C01
namespace MlaModel.C10
open MlaModel

/-! ### the specification of histories -/

/-- specification state: the open handle, if any — the name it was opened with and the bytes it has
    delivered so far -/
abbrev HSpec := Option (Bytes × Bytes)

/-- `Matches files H q op out q'`: in specification state `q`, operation `op` may answer `out` and
    leaves the specification state `q'`.  `files` is name ↦ content (`specOf ops`).  Every operation
    other than `read` ends the handle (in Rust the handle mutably borrows the reader: it must be dead
    before any other method can be called). -/
inductive Matches (files : List (Bytes × Bytes)) (H : Bytes → Bytes) :
    HSpec → ROp → ROut → HSpec → Prop where
  | list (q : HSpec) : Matches files H q .list (.names (files.map (·.1))) none
  | size (q : HSpec) (name content : Bytes) (hm : (name, content) ∈ files) :
      Matches files H q (.getSize name) (.size content.length) none
  | sizeNone (q : HSpec) (name : Bytes) (hm : name ∉ files.map (·.1)) :
      Matches files H q (.getSize name) .none_ none
  | hash (q : HSpec) (name content : Bytes) (hm : (name, content) ∈ files) :
      Matches files H q (.getHash name) (.hash (H content)) none
  | hashNone (q : HSpec) (name : Bytes) (hm : name ∉ files.map (·.1)) :
      Matches files H q (.getHash name) .none_ none
  | opened (q : HSpec) (name content : Bytes) (hm : (name, content) ∈ files) :
      Matches files H q (.getFile name) (.opened content.length) (some (name, []))
  | openNone (q : HSpec) (name : Bytes) (hm : name ∉ files.map (·.1)) :
      Matches files H q (.getFile name) .none_ none
  | drop (q : HSpec) : Matches files H q .drop .dropped none
  | noHandle (n : Nat) : Matches files H none (.read n) .noHandle none
  /-- a read on the handle of `name` returns bytes `b`: what was delivered so far followed by `b`
      is a prefix of the content, `b` fits the buffer, and `b` is not empty unless the buffer is
      empty or everything was delivered -/
  | read (name del content : Bytes) (n : Nat) (b : Bytes) (hm : (name, content) ∈ files)
      (hpre : del ++ b <+: content) (hlen : b.length ≤ n)
      (hprog : 0 < n → del ≠ content → b ≠ []) :
      Matches files H (some (name, del)) (.read n) (.data b) (some (name, del ++ b))

/-- a whole history is matched step by step, from `q` to `q'` -/
inductive RunMatches (files : List (Bytes × Bytes)) (H : Bytes → Bytes) :
    HSpec → List ROp → List ROut → HSpec → Prop where
  | nil (q : HSpec) : RunMatches files H q [] [] q
  | cons {q q1 q' : HSpec} {op : ROp} {o : ROut} {ops : List ROp} {os : List ROut}
      (h1 : Matches files H q op o q1) (h2 : RunMatches files H q1 ops os q') :
      RunMatches files H q (op :: ops) (o :: os) q'

/-! ### consequences of the specification alone -/

theorem content_unique {files : List (Bytes × Bytes)} (hnd : (files.map (·.1)).Nodup)
    {name c1 c2 : Bytes} (h1 : (name, c1) ∈ files) (h2 : (name, c2) ∈ files) : c1 = c2 := by
  induction files with
  | nil => simp at h1
  | cons x xs ih =>
    simp only [List.map_cons, List.nodup_cons] at hnd
    rcases List.mem_cons.1 h1 with e1 | m1 <;> rcases List.mem_cons.1 h2 with e2 | m2
    · rw [← e1] at e2; simpa using e2.symm
    · subst e1
      have : name ∈ xs.map (·.1) := List.mem_map.2 ⟨(name, c2), m2, rfl⟩
      exact absurd this hnd.1
    · subst e2
      have : name ∈ xs.map (·.1) := List.mem_map.2 ⟨(name, c1), m1, rfl⟩
      exact absurd this hnd.1
    · exact ih hnd.2 m1 m2

theorem mem_names {files : List (Bytes × Bytes)} {name content : Bytes}
    (h : (name, content) ∈ files) : name ∈ files.map (·.1) := List.mem_map.2 ⟨_, h, rfl⟩

/-- chunk `j` fits buffer `j`, and there are as many chunks as buffers -/
def Fits : List Bytes → List Nat → Prop
  | [], [] => True
  | b :: bs, n :: ns => b.length ≤ n ∧ Fits bs ns
  | _, _ => False

section
variable {files : List (Bytes × Bytes)} {H : Bytes → Bytes}

theorem Matches.getHash_out (hnd : (files.map (·.1)).Nodup) {q q' : HSpec} {name content : Bytes}
    {o : ROut} (hm : (name, content) ∈ files) (h : Matches files H q (.getHash name) o q') :
    o = .hash (H content) ∧ q' = none := by
  cases h with
  | hash _ _ c hm' => rw [content_unique hnd hm hm']; exact ⟨rfl, rfl⟩
  | hashNone _ _ hm' => exact absurd (mem_names hm) hm'

theorem Matches.getSize_out (hnd : (files.map (·.1)).Nodup) {q q' : HSpec} {name content : Bytes}
    {o : ROut} (hm : (name, content) ∈ files) (h : Matches files H q (.getSize name) o q') :
    o = .size content.length ∧ q' = none := by
  cases h with
  | size _ _ c hm' => rw [content_unique hnd hm hm']; exact ⟨rfl, rfl⟩
  | sizeNone _ _ hm' => exact absurd (mem_names hm) hm'

theorem Matches.getFile_out (hnd : (files.map (·.1)).Nodup) {q q' : HSpec} {name content : Bytes}
    {o : ROut} (hm : (name, content) ∈ files) (h : Matches files H q (.getFile name) o q') :
    o = .opened content.length ∧ q' = some (name, []) := by
  cases h with
  | opened _ _ c hm' => rw [content_unique hnd hm hm']; exact ⟨rfl, rfl⟩
  | openNone _ _ hm' => exact absurd (mem_names hm) hm'

theorem Matches.list_out {q q' : HSpec} {o : ROut} (h : Matches files H q .list o q') :
    o = .names (files.map (·.1)) ∧ q' = none := by
  cases h; exact ⟨rfl, rfl⟩

/-- **reading partly or until the end**: on the handle of `name`, reads with buffers `ns` return data
    chunks `bs`, each within its buffer, whose concatenation (after what was already delivered) is a
    prefix of the content — and is the WHOLE content as soon as the buffers are positive and there
    are at least as many reads as bytes left. -/
theorem reads_complete (hnd : (files.map (·.1)).Nodup) {name content : Bytes}
    (hm : (name, content) ∈ files) (ns : List Nat) :
    ∀ (del : Bytes) (outs : List ROut) (q' : HSpec), del <+: content →
      RunMatches files H (some (name, del)) (ns.map .read) outs q' →
      ∃ bs : List Bytes, outs = bs.map .data ∧ q' = some (name, del ++ bs.flatten) ∧
        del ++ bs.flatten <+: content ∧ Fits bs ns ∧
        ((∀ n ∈ ns, 0 < n) → content.length ≤ del.length + ns.length →
          del ++ bs.flatten = content) := by
  induction ns with
  | nil =>
    intro del outs q' hdel h
    cases h
    refine ⟨[], rfl, by simp, by simpa using hdel, trivial, ?_⟩
    intro _ hl
    simp only [List.flatten_nil, List.append_nil]
    exact List.IsPrefix.eq_of_length_le hdel (by simpa using hl)
  | cons n ns ih =>
    intro del outs q' hdel h
    simp only [List.map_cons] at h
    cases h with
    | cons h1 h2 =>
      cases h1 with
      | read _ _ c _ b hm' hpre hlen hprog =>
        have hc : c = content := content_unique hnd hm' hm
        subst hc
        obtain ⟨bs, ho, hq, hp, hf, hall⟩ :=
          ih (del ++ b) _ _ hpre h2
        refine ⟨b :: bs, by simp [ho], by simp [hq], by simpa using hp,
          ⟨hlen, hf⟩, ?_⟩
        intro hpos hl
        have hn : 0 < n := hpos n (by simp)
        have : del ++ b ++ bs.flatten = c := by
          apply hall (fun m hm => hpos m (by simp [hm]))
          by_cases hdc : del = c
          · simp only [List.length_append]; rw [hdc]; omega
          · have hb := List.length_pos_iff.2 (hprog hn hdc)
            simp only [List.length_append, List.length_cons] at hl ⊢
            omega
        simpa using this

end

/-! ### what the reader needs to know about the archive -/

/-- the stream is `encodeAll nb ++ tail`, the index describes the blocks of every file of `files`
    (name ↦ content), and nothing else is in the index -/
structure Arch (P : Params) (utf8 : Bytes → Bool) (H : Bytes → Bytes) (data tail : Bytes)
    (nb : List Block) (ix : Index) (files : List (Bytes × Bytes)) : Prop where
  hdata : data = encodeAll nb ++ tail
  oks : OKs P utf8 nb
  names : ix.map (·.1) = files.map (·.1)
  nodup : (files.map (·.1)).Nodup
  file : ∀ name content, (name, content) ∈ files → ∃ fi id, ix.find name = some fi ∧
    content = contentOf id nb ∧ fi.size = content.length ∧ fi.offsets = runStartsB id nb 0 false ∧
    (∃ pre rest, nb = pre ++ .start id name :: rest ∧ noMore id pre ∧ openTail id rest) ∧
    (∃ p2 r2, nb = p2 ++ .eof id (H content) :: r2 ∧ fi.eof = (encodeAll p2).length)

theorem find_none_of_not_mem (ix : Index) (name : Bytes) (h : name ∉ ix.map (·.1)) :
    ix.find name = none := by
  induction ix with
  | nil => rfl
  | cons x xs ih =>
    obtain ⟨n, fi⟩ := x
    simp only [List.map_cons, List.mem_cons, not_or] at h
    have : ¬ (n = name) := fun e => h.1 e.symm
    simp [Index.find, this, ih h.2]

/-- an accepted, finalized writer run produces such an archive (from `C01.setup`) -/
theorem arch_of_run (P : Params) (H : Bytes → Bytes) (utf8 : Bytes → Bool) (ops : List Op)
    (hH : ∀ b, (H b).length = hashLen) (hwf : ∀ op ∈ ops, op.WF utf8)
    (hacc : AllAccepted P H ops) (hfin : ops.getLast? = some .finalize)
    (hlen : ops.length < U64) (hpos : (Writer.run P H ops).2.2.length < U64) :
    ∃ tail nb, Arch P utf8 H (Writer.run P H ops).2.2 tail nb (Writer.run P H ops).1.index
      (specOf ops) := by
  obtain ⟨s', nb, hinv, hop, hidx, _, _, hstream, hnid⟩ := C01.setup P H utf8 ops hH hwf hacc hfin
  have hspec := C01.specOf_eq hinv
  have hindex : s'.index = s'.names.map
      (fun p => (p.1, (fun id => (alookup id s'.info).getD ⟨[], 0, 0⟩) p.2)) := rfl
  rw [hstream] at hpos
  have hoks := C01.blocks_wf hinv (by omega) (by simp only [List.length_append] at hpos; omega)
  refine ⟨_, nb, hstream, hoks, ?_, ?_, ?_⟩
  · rw [hidx, hspec, hindex]; simp [List.map_map, Function.comp_def]
  · rw [hspec]; simpa [List.map_map, Function.comp_def] using hinv.nodup
  · intro name content hmem
    rw [hspec] at hmem
    obtain ⟨p, hp, hpe⟩ := List.mem_map.1 hmem
    simp only [Prod.mk.injEq] at hpe
    obtain ⟨rfl, rfl⟩ := hpe
    obtain ⟨pname, id⟩ := p
    obtain ⟨fi, hfi, hok⟩ := hinv.files pname id hp
    have hfind : Index.find s'.index pname = some fi := by
      refine (find_index s'.names (fun id => (alookup id s'.info).getD ⟨[], 0, 0⟩) pname).trans ?_
      rw [nameLookup_of_mem pname id s'.names hinv.nodup hp]
      simp [hfi]
    obtain ⟨pre, rest, hbs, hpre, _, hclosed⟩ := hok.tr
    obtain ⟨hot, p2, r2, hbs2, heof⟩ := hclosed (by rw [hop]; rfl)
    exact ⟨fi, id, by rw [hidx]; exact hfind, rfl, hok.size, hok.offs, ⟨pre, rest, hbs, hpre, hot⟩,
      ⟨p2, r2, hbs2, heof⟩⟩

/-! ### the invariant of the reader along a history, and one step -/

section
variable {σ : Type} [Stream σ] {Inv : σ → Prop} {abs : σ → Nat}
variable {P : Params} {utf8 : Bytes → Bool} {H : Bytes → Bytes} {data tail : Bytes}
variable {nb : List Block} {ix : Index} {files : List (Bytes × Bytes)}

/-- the reader state `a` agrees with the specification state `q`: the stream is in a good state,
    the index is the archive's, and the open handle (if any) is a state of the PURE reader
    (`Good`, at the abstract position of the stream) that still has to deliver exactly what the
    specification says is left -/
def AInv (Inv : σ → Prop) (abs : σ → Nat) (P : Params) (utf8 : Bytes → Bool) (data tail : Bytes)
    (ix : Index) (files : List (Bytes × Bytes)) (q : HSpec) (a : ArS σ) : Prop :=
  Inv a.src ∧ a.ix = ix ∧
  match q with
  | none => a.handle = none
  | some (name, del) => ∃ content id st co offs E, (name, content) ∈ files ∧
      a.handle = some (st, id, co, offs) ∧
      Good P utf8 data tail id ⟨abs a.src, st, id, co, offs⟩ E ∧ content = del ++ E

omit [Stream σ] in
theorem AInv.closed (src : σ) (hs : Inv src) :
    AInv Inv abs P utf8 data tail ix files none ⟨src, ix, none⟩ :=
  ⟨hs, rfl, rfl⟩

/-- **one operation**, from any reader state that agrees with the specification state -/
theorem step_matches (hI : IsCursor Inv abs data) (hA : Arch P utf8 H data tail nb ix files)
    (q : HSpec) (a : ArS σ) (h : AInv Inv abs P utf8 data tail ix files q a) (op : ROp) :
    ∃ q', Matches files H q op (ArS.step P utf8 a op).2 q' ∧
      AInv Inv abs P utf8 data tail ix files q' (ArS.step P utf8 a op).1 := by
  have hsrc := h.1
  have hix := h.2.1
  cases op with
  | list =>
    refine ⟨none, ?_, ?_⟩
    · simp only [ArS.step, hix, hA.names]; exact Matches.list q
    · simp only [ArS.step, hix]; exact AInv.closed a.src hsrc
  | drop =>
    refine ⟨none, Matches.drop q, ?_⟩
    simp only [ArS.step]; exact ⟨hsrc, hix, rfl⟩
  | getSize name =>
    by_cases hn : name ∈ files.map (·.1)
    · obtain ⟨⟨n', content⟩, hm, rfl⟩ := List.mem_map.1 hn
      obtain ⟨fi, id, hfind, _, hsize, _⟩ := hA.file _ _ hm
      refine ⟨none, ?_, ?_⟩
      · simp only [ArS.step, hix, hfind, hsize]; exact Matches.size q _ _ hm
      · simp only [ArS.step, hix, hfind]; exact AInv.closed a.src hsrc
    · have hfind := find_none_of_not_mem ix name (by rw [hA.names]; exact hn)
      refine ⟨none, ?_, ?_⟩
      · simp only [ArS.step, hix, hfind]; exact Matches.sizeNone q _ hn
      · simp only [ArS.step, hix, hfind]; exact AInv.closed a.src hsrc
  | getHash name =>
    by_cases hn : name ∈ files.map (·.1)
    · obtain ⟨⟨n', content⟩, hm, rfl⟩ := List.mem_map.1 hn
      obtain ⟨fi, id, hfind, _, _, _, _, ⟨p2, r2, hbs2, heof⟩⟩ := hA.file _ _ hm
      obtain ⟨s1, s2, hsk, hdec, hinv2⟩ :=
        hashS_good (P := P) (utf8 := utf8) (tail := tail) (i := id) hI nb p2 r2 (H content) fi.eof
          hA.hdata hA.oks hbs2 heof a.src hsrc
      refine ⟨none, ?_, ?_⟩
      · simp only [ArS.step, hix, hfind, hsk, hdec]; exact Matches.hash q _ _ hm
      · simp only [ArS.step, hix, hfind, hsk, hdec]; exact AInv.closed s2 hinv2
    · have hfind := find_none_of_not_mem ix name (by rw [hA.names]; exact hn)
      refine ⟨none, ?_, ?_⟩
      · simp only [ArS.step, hix, hfind]; exact Matches.hashNone q _ hn
      · simp only [ArS.step, hix, hfind]; exact AInv.closed a.src hsrc
  | getFile name =>
    by_cases hn : name ∈ files.map (·.1)
    · obtain ⟨⟨n', content⟩, hm, rfl⟩ := List.mem_map.1 hn
      obtain ⟨fi, id, hfind, hcont, hsize, hoffs, ⟨pre, rest, hbs, hpre, hot⟩, _⟩ := hA.file _ _ hm
      obtain ⟨s', hnew, hinv', hgood⟩ :=
        newS_good (P := P) (utf8 := utf8) (tail := tail) (i := id) hI nb pre rest n' fi.offsets
          hA.hdata hA.oks hbs hpre hot hoffs a.src hsrc
      refine ⟨some (n', []), ?_, ?_⟩
      · simp only [ArS.step, hix, hfind, hnew, hsize]; exact Matches.opened q _ _ hm
      · simp only [ArS.step, hix, hfind, hnew]
        exact ⟨hinv', rfl, content, id, .ready, 0, fi.offsets, content, hm, rfl,
          by rw [hcont]; exact hgood, by simp⟩
    · have hfind := find_none_of_not_mem ix name (by rw [hA.names]; exact hn)
      refine ⟨none, ?_, ?_⟩
      · simp only [ArS.step, hix, hfind]; exact Matches.openNone q _ hn
      · simp only [ArS.step, hix, hfind]; exact AInv.closed a.src hsrc
  | read n =>
    cases q with
    | none =>
      have hh : a.handle = none := h.2.2
      refine ⟨none, ?_, ?_⟩
      · simp only [ArS.step, hh]; exact Matches.noHandle n
      · simp only [ArS.step, hh]; exact h
    | some p =>
      obtain ⟨name, del⟩ := p
      obtain ⟨content, id, st, co, offs, E, hm, hh, hg, hc⟩ := h.2.2
      obtain ⟨s', st', co', out, hread, hinv', hg', hout, hle, hprog⟩ :=
        readS_step (P := P) (utf8 := utf8) (tail := tail) (i := id) hI n a.src st co offs E hsrc hg
      have hsplit : E = out ++ E.drop out.length := by
        conv => lhs; rw [← List.take_append_drop out.length E]
        rw [← hout]
      refine ⟨some (name, del ++ out), ?_, ?_⟩
      · simp only [ArS.step, hh, hread]
        refine Matches.read name del content n out hm ?_ hle ?_
        · rw [hc, hsplit, ← List.append_assoc]; exact List.prefix_append _ _
        · intro hn hne
          apply hprog hn
          intro hE; apply hne; rw [hc, hE]; simp
      · simp only [ArS.step, hh, hread]
        refine ⟨hinv', hix, content, id, st', co', offs, E.drop out.length, hm, rfl, hg', ?_⟩
        rw [hc, List.append_assoc, ← hsplit]

/-- `run` on a concatenation of histories -/
theorem run_append (a : ArS σ) (h1 h2 : List ROp) :
    ArS.run P utf8 a (h1 ++ h2) =
      ((ArS.run P utf8 (ArS.run P utf8 a h1).1 h2).1,
       (ArS.run P utf8 a h1).2 ++ (ArS.run P utf8 (ArS.run P utf8 a h1).1 h2).2) := by
  induction h1 generalizing a with
  | nil => simp [ArS.run]
  | cons op h1 ih => simp [ArS.run, ih]

/-- **a whole history**, from any reader state that agrees with the specification state -/
theorem run_matches (hI : IsCursor Inv abs data) (hA : Arch P utf8 H data tail nb ix files)
    (h : List ROp) : ∀ (q : HSpec) (a : ArS σ), AInv Inv abs P utf8 data tail ix files q a →
    ∃ q', RunMatches files H q h (ArS.run P utf8 a h).2 q' ∧
      AInv Inv abs P utf8 data tail ix files q' (ArS.run P utf8 a h).1 := by
  induction h with
  | nil => intro q a ha; exact ⟨q, RunMatches.nil q, ha⟩
  | cons op h ih =>
    intro q a ha
    obtain ⟨q1, hm, ha1⟩ := step_matches hI hA q a ha op
    obtain ⟨q', hr, ha'⟩ := ih q1 _ ha1
    exact ⟨q', RunMatches.cons hm hr, ha'⟩

theorem RunMatches.cons_inv {q q' : HSpec} {op : ROp} {t : List ROp} {outs : List ROut}
    (h : RunMatches files H q (op :: t) outs q') :
    ∃ o os q1, outs = o :: os ∧ Matches files H q op o q1 ∧ RunMatches files H q1 t os q' := by
  cases h with
  | cons h1 h2 => exact ⟨_, _, _, rfl, h1, h2⟩

/-- opening `name` and reading it with buffers `ns`, from ANY reader state that agrees with some
    specification state: the reads return chunks, each within its buffer, whose concatenation is a
    prefix of the content, and the whole content if the buffers are positive and at least as many
    as the file has bytes -/
theorem open_read_all (hI : IsCursor Inv abs data) (hA : Arch P utf8 H data tail nb ix files)
    (q : HSpec) (a : ArS σ) (ha : AInv Inv abs P utf8 data tail ix files q a)
    (name content : Bytes) (hm : (name, content) ∈ files) (ns : List Nat) :
    ∃ bs : List Bytes, (ArS.run P utf8 a (.getFile name :: ns.map .read)).2 =
        .opened content.length :: bs.map .data ∧ bs.flatten <+: content ∧ Fits bs ns ∧
      ((∀ n ∈ ns, 0 < n) → content.length ≤ ns.length → bs.flatten = content) := by
  obtain ⟨q', hr, _⟩ := run_matches hI hA (.getFile name :: ns.map .read) q a ha
  obtain ⟨o, os, q1, ho, h1, h2⟩ := hr.cons_inv
  obtain ⟨rfl, rfl⟩ := h1.getFile_out hA.nodup hm
  obtain ⟨bs, hos, _, hp, hfit, hall⟩ :=
    reads_complete hA.nodup hm ns [] os q' (List.nil_prefix) h2
  refine ⟨bs, by rw [ho, hos], by simpa using hp, hfit, ?_⟩
  intro hpos hlong
  simpa using hall hpos (by simpa using hlong)

/-- the answer of a single non-`read` operation, from ANY reader state that agrees with some
    specification state -/
theorem single_matches (hI : IsCursor Inv abs data) (hA : Arch P utf8 H data tail nb ix files)
    (q : HSpec) (a : ArS σ) (ha : AInv Inv abs P utf8 data tail ix files q a) (op : ROp) :
    ∃ o q', (ArS.run P utf8 a [op]).2 = [o] ∧ Matches files H q op o q' := by
  obtain ⟨q', hm, _⟩ := step_matches hI hA q a ha op
  exact ⟨_, q', by simp [ArS.run], hm⟩

end

/-! ### C10 for the archives the writer produces -/

section
variable (P : Params) (H : Bytes → Bytes) (utf8 : Bytes → Bool) (ops : List Op)
  (hH : ∀ b, (H b).length = hashLen)         -- the hash has 32 bytes
  (hwf : ∀ op ∈ ops, op.WF utf8)             -- names valid UTF-8, sizes < 2^64
  (hacc : AllAccepted P H ops)               -- every call accepted
  (hfin : ops.getLast? = some .finalize)     -- ends with finalize
  (hlen : ops.length < U64)                  -- fewer than 2^64 calls
  (hpos : (Writer.run P H ops).2.2.length < U64) -- the stream is shorter than 2^64 bytes
  {σ : Type} [Stream σ] (Inv : σ → Prop) (abs : σ → Nat)
  (hI : IsCursor Inv abs (Writer.run P H ops).2.2) -- the layer stack behaves like a cursor
  (a₀ : ArS σ) (h0 : Inv a₀.src)             -- the stream is in a good state, at ANY position
  (hix : a₀.ix = (Writer.run P H ops).1.index)
  (hh : a₀.handle = none)
include hH hwf hacc hfin hlen hpos hI h0 hix hh

/-- **C10.history** — for EVERY history `h`, the outputs of the reader started in `a₀` are the ones
    the specification `Matches (specOf ops) H` allows, step by step, starting with no open handle:
    each answer depends only on the operation, on the archive content and — for `read` — on what
    the current handle has delivered so far; never on what happened before. -/
theorem history (h : List ROp) :
    ∃ q', RunMatches (specOf ops) H none h (ArS.run P utf8 a₀ h).2 q' := by
  obtain ⟨tail, nb, hA⟩ := arch_of_run P H utf8 ops hH hwf hacc hfin hlen hpos
  obtain ⟨q', hr, _⟩ := run_matches hI hA h none a₀ ⟨h0, hix, hh⟩
  exact ⟨q', hr⟩

/-- **C10.same_as_alone** — after ANY history `h`, opening `name` and reading it with buffers `ns`
    of any sizes returns chunks, each within its buffer, whose concatenation is a prefix of the
    content — exactly the content when the buffers are positive and at least as many as the file has
    bytes — and so does the same thing done alone right after opening the archive.
    (The chunk boundaries may differ: layers may return short reads depending on their caches.) -/
theorem same_as_alone (h : List ROp) (name content : Bytes) (hm : (name, content) ∈ specOf ops)
    (ns : List Nat) :
    (∃ bs : List Bytes,
      (ArS.run P utf8 a₀ (h ++ .getFile name :: ns.map .read)).2 =
        (ArS.run P utf8 a₀ h).2 ++ .opened content.length :: bs.map .data ∧
      bs.flatten <+: content ∧ Fits bs ns ∧
      ((∀ n ∈ ns, 0 < n) → content.length ≤ ns.length → bs.flatten = content)) ∧
    (∃ bs : List Bytes,
      (ArS.run P utf8 a₀ (.getFile name :: ns.map .read)).2 =
        .opened content.length :: bs.map .data ∧
      bs.flatten <+: content ∧ Fits bs ns ∧
      ((∀ n ∈ ns, 0 < n) → content.length ≤ ns.length → bs.flatten = content)) := by
  obtain ⟨tail, nb, hA⟩ := arch_of_run P H utf8 ops hH hwf hacc hfin hlen hpos
  have ha0 : AInv Inv abs P utf8 (Writer.run P H ops).2.2 tail (Writer.run P H ops).1.index
      (specOf ops) none a₀ := ⟨h0, hix, hh⟩
  obtain ⟨q, _, ha⟩ := run_matches hI hA h none a₀ ha0
  obtain ⟨bs, hb, hc⟩ := open_read_all hI hA q _ ha name content hm ns
  refine ⟨⟨bs, ?_, hc⟩, open_read_all hI hA none a₀ ha0 name content hm ns⟩
  rw [run_append, hb]

/-- after ANY history, `get_hash` answers the hash of the content, as it does alone -/
theorem hash_same_as_alone (h : List ROp) (name content : Bytes)
    (hm : (name, content) ∈ specOf ops) :
    (ArS.run P utf8 a₀ (h ++ [.getHash name])).2 = (ArS.run P utf8 a₀ h).2 ++ [.hash (H content)] ∧
    (ArS.run P utf8 a₀ [.getHash name]).2 = [.hash (H content)] := by
  obtain ⟨tail, nb, hA⟩ := arch_of_run P H utf8 ops hH hwf hacc hfin hlen hpos
  have ha0 : AInv Inv abs P utf8 (Writer.run P H ops).2.2 tail (Writer.run P H ops).1.index
      (specOf ops) none a₀ := ⟨h0, hix, hh⟩
  obtain ⟨q, _, ha⟩ := run_matches hI hA h none a₀ ha0
  obtain ⟨o, q', ho, hm1⟩ := single_matches hI hA q _ ha (.getHash name)
  obtain ⟨o0, q0', ho0, hm0⟩ := single_matches hI hA none a₀ ha0 (.getHash name)
  rw [run_append, ho, ho0, (hm1.getHash_out hA.nodup hm).1, (hm0.getHash_out hA.nodup hm).1]
  exact ⟨rfl, rfl⟩

/-- after ANY history, the size lookup answers the length of the content, as it does alone -/
theorem size_same_as_alone (h : List ROp) (name content : Bytes)
    (hm : (name, content) ∈ specOf ops) :
    (ArS.run P utf8 a₀ (h ++ [.getSize name])).2 = (ArS.run P utf8 a₀ h).2 ++ [.size content.length] ∧
    (ArS.run P utf8 a₀ [.getSize name]).2 = [.size content.length] := by
  obtain ⟨tail, nb, hA⟩ := arch_of_run P H utf8 ops hH hwf hacc hfin hlen hpos
  have ha0 : AInv Inv abs P utf8 (Writer.run P H ops).2.2 tail (Writer.run P H ops).1.index
      (specOf ops) none a₀ := ⟨h0, hix, hh⟩
  obtain ⟨q, _, ha⟩ := run_matches hI hA h none a₀ ha0
  obtain ⟨o, q', ho, hm1⟩ := single_matches hI hA q _ ha (.getSize name)
  obtain ⟨o0, q0', ho0, hm0⟩ := single_matches hI hA none a₀ ha0 (.getSize name)
  rw [run_append, ho, ho0, (hm1.getSize_out hA.nodup hm).1, (hm0.getSize_out hA.nodup hm).1]
  exact ⟨rfl, rfl⟩

/-- after ANY history, listing answers the names in order of `start`, as it does alone -/
theorem list_same_as_alone (h : List ROp) :
    (ArS.run P utf8 a₀ (h ++ [.list])).2 =
      (ArS.run P utf8 a₀ h).2 ++ [.names ((specOf ops).map (·.1))] ∧
    (ArS.run P utf8 a₀ [.list]).2 = [.names ((specOf ops).map (·.1))] := by
  obtain ⟨tail, nb, hA⟩ := arch_of_run P H utf8 ops hH hwf hacc hfin hlen hpos
  have ha0 : AInv Inv abs P utf8 (Writer.run P H ops).2.2 tail (Writer.run P H ops).1.index
      (specOf ops) none a₀ := ⟨h0, hix, hh⟩
  obtain ⟨q, _, ha⟩ := run_matches hI hA h none a₀ ha0
  obtain ⟨o, q', ho, hm1⟩ := single_matches hI hA q _ ha .list
  obtain ⟨o0, q0', ho0, hm0⟩ := single_matches hI hA none a₀ ha0 .list
  rw [run_append, ho, ho0, hm1.list_out.1, hm0.list_out.1]
  exact ⟨rfl, rfl⟩

end

/-! ### Non-vacuity: the interleaved archive of `C01.exOps`, read through an in-memory cursor that
    `from_config` left at position 5, and through a stream that returns ONE byte per read. -/

open C01 in
def exData : Bytes := (Writer.run Params.prod exH exOps).2.2
open C01 in
def exIx : Index := (Writer.run Params.prod exH exOps).1.index

def exA0 : ArS Cur := ⟨⟨exData, 5⟩, exIx, none⟩

/-- list; open `a`, read 1 byte, abandon it by opening `c`; read `c` with a 2-byte buffer to the
    end; hash of `a`; re-open `a` and read it all; a read without handle after a size lookup -/
def exHist : List ROp :=
  [.list, .getFile [97], .read 1, .getFile [99], .read 2, .read 2, .getHash [97],
   .getFile [97], .read 100, .read 100, .read 100, .getSize [98], .read 4, .getFile [100]]

set_option maxRecDepth 8192 in
example : (ArS.run Params.prod (fun _ => true) exA0 exHist).2 =
    [.names [[97], [98], [99]], .opened 3, .data [1], .opened 2, .data [5, 6], .data [],
     .hash (C01.exH [1, 2, 7]), .opened 3, .data [1, 2], .data [7], .data [], .size 1, .noHandle,
     .none_] := by
  decide

set_option maxRecDepth 8192 in
theorem exA0_inv : exA0.src.data = exData ∧ exA0.src.pos ≤ exData.length := ⟨rfl, by decide⟩

/-- `history` applies to the example -/
example : ∃ q', RunMatches (specOf C01.exOps) C01.exH none exHist
    (ArS.run Params.prod (fun _ => true) exA0 exHist).2 q' :=
  history Params.prod C01.exH (fun _ => true) C01.exOps C01.exH_len C01.exOps_wf C01.exOps_accepted
    C01.exOps_last C01.exOps_len C01.exOps_pos _ _ (Cur.isCursor exData) exA0 exA0_inv rfl rfl exHist

/-- `same_as_alone` applies to the example: after `exHist`, file `a` reads back as `[1, 2, 7]` -/
example : ∃ bs : List Bytes,
    (ArS.run Params.prod (fun _ => true) exA0 (exHist ++ .getFile [97] :: [2, 2, 2].map .read)).2 =
      (ArS.run Params.prod (fun _ => true) exA0 exHist).2 ++ .opened 3 :: bs.map .data ∧
    bs.flatten = [1, 2, 7] ∧ Fits bs [2, 2, 2] := by
  obtain ⟨bs, h1, _, h3, h4⟩ :=
    (same_as_alone Params.prod C01.exH (fun _ => true) C01.exOps C01.exH_len C01.exOps_wf
      C01.exOps_accepted C01.exOps_last C01.exOps_len C01.exOps_pos _ _ (Cur.isCursor exData) exA0
      exA0_inv rfl rfl exHist [97] [1, 2, 7] (by decide) [2, 2, 2]).1
  exact ⟨bs, h1, h4 (by decide) (by decide), h3⟩

/-- a stream that never returns more than one byte per `read` (short reads) -/
structure Slow where
  data : Bytes
  pos : Nat

instance : Stream Slow where
  seek c
    | .start n => .ok ({ c with pos := n }, n)
    | .current d =>
      if 0 ≤ (c.pos : Int) + d then
        .ok ({ c with pos := ((c.pos : Int) + d).toNat }, ((c.pos : Int) + d).toNat)
      else .error .io
    | .fromEnd d =>
      if 0 ≤ (c.data.length : Int) + d then
        .ok ({ c with pos := ((c.data.length : Int) + d).toNat }, ((c.data.length : Int) + d).toNat)
      else .error .io
  read c n :=
    let out := (c.data.drop c.pos).take (min n 1)
    .ok ({ c with pos := c.pos + out.length }, out)

theorem Slow.isCursor (data : Bytes) :
    IsCursor (σ := Slow) (fun c => c.data = data ∧ c.pos ≤ data.length) (·.pos) data := by
  refine ⟨fun s h => h.2, ?_, ?_⟩
  · intro s w target ⟨hd, hp⟩ ht hw
    cases w with
    | start n => subst hw; exact ⟨_, rfl, ⟨hd, ht⟩, rfl⟩
    | current d =>
      have h0 : 0 ≤ (s.pos : Int) + d := by omega
      have : ((s.pos : Int) + d).toNat = target := by omega
      refine ⟨{ s with pos := target }, ?_, ⟨hd, ht⟩, rfl⟩
      simp [Stream.seek, h0, this]
    | fromEnd d =>
      subst hd
      have h0 : 0 ≤ (s.data.length : Int) + d := by omega
      have : ((s.data.length : Int) + d).toNat = target := by omega
      refine ⟨{ s with pos := target }, ?_, ⟨rfl, ht⟩, rfl⟩
      simp [Stream.seek, h0, this]
  · intro s n ⟨hd, hp⟩
    subst hd
    refine ⟨_, _, rfl, ⟨rfl, ?_⟩, ?_, ?_, ?_, rfl⟩
    · simp; omega
    · simp
    · simp; omega
    · intro hn hlt; simp; omega

def exS0 : ArS Slow := ⟨⟨exData, 200⟩, exIx, none⟩

set_option maxRecDepth 8192 in
/-- through the slow stream the chunks are different (one byte per read) … -/
example : (ArS.run Params.prod (fun _ => true) exS0
      [.getFile [97], .read 100, .read 100, .read 100, .read 100]).2 =
    [.opened 3, .data [1], .data [2], .data [7], .data []] := by
  decide

set_option maxRecDepth 8192 in
theorem exS0_inv : exS0.src.data = exData ∧ exS0.src.pos ≤ exData.length := ⟨rfl, by decide⟩

/-- … and the theorems apply just the same -/
example : ∃ q', RunMatches (specOf C01.exOps) C01.exH none exHist
    (ArS.run Params.prod (fun _ => true) exS0 exHist).2 q' :=
  history Params.prod C01.exH (fun _ => true) C01.exOps C01.exH_len C01.exOps_wf C01.exOps_accepted
    C01.exOps_last C01.exOps_len C01.exOps_pos _ _ (Slow.isCursor exData) exS0 exS0_inv rfl rfl exHist

end MlaModel.C10

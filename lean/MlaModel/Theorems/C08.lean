/-
  C08 — untrusted input never makes the reader panic, loop without bound, or allocate more than
  the input; after an operation has answered an error the reader can still be used.

  In the model the distinguished outcome `Err.panic _` is answered only where a fuel runs out (every
  place where the Rust code could overflow, index out of bounds or unwrap has an explicit error
  answer).  So C08 over the model is: with the model's own fuels, NO operation answers `Err.panic _`,
  on ARBITRARY input, from ARBITRARY state — no well-formedness hypothesis anywhere.  "From arbitrary
  state" includes the state a failed operation left, so "usable after an error" is the same
  statement for sequences of operations (`after_error_*`).

  `NoPanic r` : the answer `r : Except Err α` is not `.error (.panic _)`.
  `StreamNoPanic σ` : the stream `σ` never answers panic (instances: the cursor, and every layer
  reader over a stream that has it — so any stack of layers).

    1. parsers            : `parse_footer`, `hdr_decode`, `block_decode`, `de_entries`, `parse_sizes`
    2. file reader        : `btf_new`, `btf_read` (any `Btf`), `btfS_read` (over any stack), `get_hash`,
                            `read_to_end` / `budget_le` / `get_file` (`read_to_end` terminates on any input)
    3. linear / repair    : `linear_run`, `repair_convert` (fuel and the `repair-sync` branch)
    4. encryption reader  : `enc_read`, `enc_seek`, `enc_init`, `readUpTo_fuel`
    5. compression reader : `comp_read` (fuel 3 is adequate), `comp_seek`, `comp_init`
    6. fail-safe readers  : `fsDecomp_fuel`, `enc_deliver_unauth`, `enc_deliver_auth`, `encF_read`
    7. sequences          : `after_error_enc`, `after_error_comp`, `after_error_archive`
    8. allocation         : `alloc`

  `read_to_end` (`Btf.readAll`, driven by `Reader.getFile`): every non-empty read moves forward in the
  stream or uses up one offset, so at most `(offsets.length + 1) × (|s| + 1)` reads are needed
  (`read_to_end`, `budget_le`); `Reader.getFile` runs with that fuel (a fuel of `|s| + 2`, as the
  model had before, is exceeded by a hostile offsets list that points back to the same content block
  again and again) and never panics (`get_file`).
  OBSERVATION about the format (`amplification`): such an offsets list makes a successful
  `get_file` + `read_to_end` deliver the content `offsets.length` times: the output is bounded by
  `(|footer| / 8) × |s|`, not by the archive size.  Not a property violation (the library hands out
  what the caller asks to read); recorded in the design notes.
-/
import MlaModel.Proofs.NoPanic
import MlaModel.Proofs.NoPanicLayers
import MlaModel.Proofs.CompressFailSafe
import MlaModel.Theorems.EncryptFailSafe
namespace MlaModel.C08
open MlaModel

/-! ## 1. parsers -/

theorem parse_footer (utf8 : Bytes → Bool) (s : Bytes) : NoPanic (parseFooter utf8 s) :=
  parseFooter_noPanic utf8 s

theorem hdr_decode (P : Params) (utf8 : Bytes → Bool) (s : Bytes) : NoPanic (Hdr.decode P utf8 s) :=
  Hdr.decode_noPanic P utf8 s

theorem block_decode (P : Params) (utf8 : Bytes → Bool) (s : Bytes) :
    NoPanic (Block.decode P utf8 s) := Block.decode_noPanic P utf8 s

theorem de_entries (utf8 : Bytes → Bool) (n : Nat) (s : Bytes) (acc : Index) :
    NoPanic (deEntries utf8 n s acc) := deEntries_noPanic utf8 n s acc

theorem parse_sizes (tbl : Bytes) : NoPanic (parseSizes tbl) := parseSizes_noPanic tbl

/-- the statement in its plainest form -/
theorem parse_footer' (utf8 : Bytes → Bool) (s : Bytes) (site : String) :
    parseFooter utf8 s ≠ .error (.panic site) :=
  (NoPanic.iff_ne _).1 (parse_footer utf8 s) site

/-! ## 2. the file reader: any state, any offsets, any index -/

theorem btf_new (P : Params) (utf8 : Bytes → Bool) (s : Bytes) (offsets : List Nat) :
    NoPanic (Btf.new P utf8 s offsets) := Btf.new_noPanic P utf8 s offsets

/-- the fuel `offsets.length + 2` is adequate for every `b : Btf` -/
theorem btf_read (P : Params) (utf8 : Bytes → Bool) (s : Bytes) (b : Btf) (n : Nat) :
    NoPanic (Btf.read P utf8 s b n) := Btf.read_noPanic P utf8 s b n

theorem get_hash (P : Params) (utf8 : Bytes → Bool) (s : Bytes) (ix : Index) (name : Bytes) :
    NoPanic (Reader.getHash P utf8 s ix name) := Reader.getHash_noPanic P utf8 s ix name

theorem btfS_new {σ : Type} [Stream σ] [StreamNoPanic σ] (P : Params) (utf8 : Bytes → Bool) (src : σ)
    (offsets : List Nat) : NoPanic (BtfS.new P utf8 src offsets) := BtfS.new_noPanic P utf8 src offsets

theorem btfS_read {σ : Type} [Stream σ] [StreamNoPanic σ] (P : Params) (utf8 : Bytes → Bool)
    (b : BtfS σ) (n : Nat) : NoPanic (BtfS.read P utf8 b n) := BtfS.read_noPanic P utf8 b n

theorem parse_footerS {σ : Type} [Stream σ] [StreamNoPanic σ] (utf8 : Bytes → Bool) (s : σ) :
    NoPanic (parseFooterS utf8 s).2 := parseFooterS_noPanic utf8 s

/-- **`read_to_end` terminates on any input**: `Btf.readAll` with more fuel than the budget of the
    state never panics … -/
theorem read_to_end (P : Params) (utf8 : Bytes → Bool) (s : Bytes) (n fuel : Nat) (b : Btf)
    (h : Btf.budget s b < fuel) : NoPanic (Btf.readAll P utf8 s n fuel b) :=
  Btf.readAll_noPanic P utf8 s n fuel b h

/-- … and the budget is at most `(offsets.length + 1) × (|s| + 1)`: every non-empty read moves
    forward in the stream or uses up one offset (`Btf.read_budget`) -/
theorem budget_le (s : Bytes) (b : Btf) : Btf.budget s b ≤ (b.offsets.length + 1) * (s.length + 1) := by
  unfold Btf.budget
  have : (b.offsets.length - b.curOff) * (s.length + 1) ≤ b.offsets.length * (s.length + 1) :=
    Nat.mul_le_mul_right _ (Nat.sub_le _ _)
  rw [Nat.add_mul]
  omega

/-- **C08.get_file** — `get_file` + `read_to_end` never panics: any stream, any index (hostile
    footer), any name, any buffer size.  For `n = 0` every `read` returns `[]`, so `read_to_end` stops
    at once with `.ok []` — no panic either (the statement has no `0 < n` hypothesis). -/
theorem get_file (P : Params) (utf8 : Bytes → Bool) (s : Bytes) (ix : Index) (name : Bytes) (n : Nat) :
    NoPanic (Reader.getFile P utf8 s ix name n) := Reader.getFile_noPanic P utf8 s ix name n

/-! ## 3. linear extraction and repair -/

/-- the fuel `|s| + 1` is adequate: every iteration consumes at least the block-type byte -/
theorem linear_run (P : Params) (utf8 : Bytes → Bool) (s : Bytes) (chosen : List Bytes) :
    NoPanic (Linear.run P utf8 s chosen) := Linear.run_noPanic P utf8 s chosen

/-- the fuel `|d| + 1` is adequate and the `repair-sync` branch is unreachable -/
theorem repair_convert (P : Params) (H : Bytes → Bytes) (utf8 : Bytes → Bool) (d : Bytes)
    (endErr : Bool) (site : String) :
    (Repair.convert P H utf8 d endErr).stop ≠ .errNextBlock (.panic site) := by
  intro h
  have := Repair.convert_noPanic P H utf8 d endErr
  rw [h] at this
  simp [Stop.isPanic, Err.isPanic] at this

/-! ## 4. encryption reader -/

section
variable {ι : Type} [Stream ι] [StreamNoPanic ι] (P : Params) (C : EncPrims)

theorem enc_read (r : EncR ι) (n : Nat) : NoPanic (EncR.readFull P C r n).2 :=
  EncR.readFull_noPanic P C r n

theorem enc_seek (r : EncR ι) (w : SeekFrom) : NoPanic (EncR.seekFull P C r w).2 :=
  EncR.seekFull_noPanic P C r w

theorem enc_init (inner : ι) : NoPanic (EncR.init P C inner).2 := EncR.init_noPanic P C inner

end

/-- `readUpTo` has no panic branch, and its fuel is never what stops it: with `limit ≤ fuel` (the
    layers use `limit + 1`) the result is that of any larger fuel — for ANY stream, no hypothesis. -/
theorem readUpTo_fuel {σ : Type} [Stream σ] (fuel k : Nat) (s : σ) (limit : Nat) (h : limit ≤ fuel) :
    readUpTo fuel s limit = readUpTo (fuel + k) s limit := MlaModel.readUpTo_fuel k fuel s limit h

/-! ## 5. compression reader -/

section
variable {ι : Type} [Stream ι] [StreamNoPanic ι] (P : Params) (K : Codec)

/-- the fuel 3 of `CompressionLayerReader::read` is adequate from ANY state: any sizes table, any
    `upos`, any block state (no hypothesis on the short-read policy `rd` is needed) -/
theorem comp_read (rd : Nat → Nat) (r : CompR ι) (n : Nat) :
    NoPanic (CompR.readFull P K rd 3 r n).2 := CompR.readFull_noPanic P K rd r n

theorem comp_seek (r : CompR ι) (w : SeekFrom) : NoPanic (CompR.seekFull P K r w).2 :=
  CompR.seekFull_noPanic P K r w

theorem comp_init (inner : ι) : NoPanic (CompR.init inner) := CompR.init_noPanic inner

end

/-! ## 6. fail-safe readers: the fuels are not what ends them -/

/-- `fsDecomp` with the canonical fuel `|s| + 1`: the result no longer depends on the fuel -/
theorem fsDecomp_fuel (P : Params) (K : Codec) (f₁ f₂ : Nat) (s : Bytes) (h₁ : s.length < f₁)
    (h₂ : s.length < f₂) : fsDecomp P K f₁ s = fsDecomp P K f₂ s :=
  CompFS.fsDecomp_fuel_stable P K f₁ f₂ s h₁ h₂

theorem enc_deliver_unauth (P : Params) (C : EncPrims) (n : Nat) (hn : 0 < n) (e : Bytes)
    (fuel : Nat) (hf : e.length ≤ fuel) :
    EncF.deliver P C n fuel (EncF.new P C .unauthenticated e) = fsUnauth P C (e.length + 1) 0 e :=
  EncFS.deliver_unauth P C n hn e fuel hf

theorem enc_deliver_auth (P : Params) (C : EncPrims) (n : Nat) (hn : 0 < n) (e : Bytes)
    (fuel : Nat) (hf : e.length ≤ fuel) :
    EncF.deliver P C n fuel (EncF.new P C .authenticated e) = fsAuth P C e :=
  EncFS.deliver_auth P C n hn e fuel hf

/-- the fail-safe decryptor's `read` never panics, from any state -/
theorem encF_read (P : Params) (C : EncPrims) (f : EncF) (n : Nat) : NoPanic (EncF.read P C f n).2 := by
  unfold EncF.read
  split
  · split
    · split <;> exact NoPanic.ok _
    · exact NoPanic.ok _
  · split
    · exact NoPanic.ok _
    · split
      · split
        · exact NoPanic.ok _
        · rename_i f' e _ he
          have h1 : NoPanic (EncF.loadAuth P C { f with chunkNo := f.chunkNo + 1 }).2 := by
            unfold EncF.loadAuth
            dsimp only
            split
            · exact NoPanic.ok _
            · split
              · rename_i e' he'
                exact (openChunk_noPanic P C _ _).of_err he'
              · exact NoPanic.ok _
          exact h1.of_pair he
        · exact NoPanic.ok _
        · exact NoPanic.ok _
      · exact NoPanic.ok _

/-! ## 7. sequences of operations: still usable after an error -/

/-- an operation on a layer reader -/
inductive SOp where
  | read (n : Nat)
  | seek (w : SeekFrom)

section
variable {ι : Type} [Stream ι] [StreamNoPanic ι]

/-- the answers of a sequence of operations on the encryption reader; the state after an error is
    the one `readFull` / `seekFull` return -/
def encRun (P : Params) (C : EncPrims) : EncR ι → List SOp → List (Except Err (Bytes ⊕ Nat))
  | _, [] => []
  | r, .read n :: ops =>
    match EncR.readFull P C r n with
    | (r', .ok b) => .ok (.inl b) :: encRun P C r' ops
    | (r', .error e) => .error e :: encRun P C r' ops
  | r, .seek w :: ops =>
    match EncR.seekFull P C r w with
    | (r', .ok p) => .ok (.inr p) :: encRun P C r' ops
    | (r', .error e) => .error e :: encRun P C r' ops

def compRunR (P : Params) (K : Codec) (rd : Nat → Nat) :
    CompR ι → List SOp → List (Except Err (Bytes ⊕ Nat))
  | _, [] => []
  | r, .read n :: ops =>
    match CompR.readFull P K rd 3 r n with
    | (r', .ok b) => .ok (.inl b) :: compRunR P K rd r' ops
    | (r', .error e) => .error e :: compRunR P K rd r' ops
  | r, .seek w :: ops =>
    match CompR.seekFull P K r w with
    | (r', .ok p) => .ok (.inr p) :: compRunR P K rd r' ops
    | (r', .error e) => .error e :: compRunR P K rd r' ops

/-- **C08.after_error (encryption reader)**: from any start state, whatever the operations and
    whatever errors occurred on the way, no answer is a panic -/
theorem after_error_enc (P : Params) (C : EncPrims) (r : EncR ι) (ops : List SOp) :
    ∀ a ∈ encRun P C r ops, NoPanic a := by
  induction ops generalizing r with
  | nil => simp [encRun]
  | cons op ops ih =>
    intro a ha
    cases op with
    | read n =>
      simp only [encRun] at ha
      split at ha
      · rcases List.mem_cons.1 ha with ha | ha
        · rw [ha]; exact NoPanic.ok _
        · exact ih _ a ha
      · rename_i r' e he
        rcases List.mem_cons.1 ha with ha | ha
        · rw [ha]; exact (EncR.readFull_noPanic P C r n).of_pair he
        · exact ih _ a ha
    | seek w =>
      simp only [encRun] at ha
      split at ha
      · rcases List.mem_cons.1 ha with ha | ha
        · rw [ha]; exact NoPanic.ok _
        · exact ih _ a ha
      · rename_i r' e he
        rcases List.mem_cons.1 ha with ha | ha
        · rw [ha]; exact (EncR.seekFull_noPanic P C r w).of_pair he
        · exact ih _ a ha

/-- **C08.after_error (compression reader)** -/
theorem after_error_comp (P : Params) (K : Codec) (rd : Nat → Nat) (r : CompR ι) (ops : List SOp) :
    ∀ a ∈ compRunR P K rd r ops, NoPanic a := by
  induction ops generalizing r with
  | nil => simp [compRunR]
  | cons op ops ih =>
    intro a ha
    cases op with
    | read n =>
      simp only [compRunR] at ha
      split at ha
      · rcases List.mem_cons.1 ha with ha | ha
        · rw [ha]; exact NoPanic.ok _
        · exact ih _ a ha
      · rename_i r' e he
        rcases List.mem_cons.1 ha with ha | ha
        · rw [ha]; exact (CompR.readFull_noPanic P K rd r n).of_pair he
        · exact ih _ a ha
    | seek w =>
      simp only [compRunR] at ha
      split at ha
      · rcases List.mem_cons.1 ha with ha | ha
        · rw [ha]; exact NoPanic.ok _
        · exact ih _ a ha
      · rename_i r' e he
        rcases List.mem_cons.1 ha with ha | ha
        · rw [ha]; exact (CompR.seekFull_noPanic P K r w).of_pair he
        · exact ih _ a ha

end

/-- **C08.after_error (archive reader)**: any history of `list` / `get_file` / `read` / `get_hash` /
    size lookups on an `ArchiveReader` over any layer stack, from ANY state — any index (hostile
    footer), any open handle, any stream state — never answers a panic. -/
theorem after_error_archive {σ : Type} [Stream σ] [StreamNoPanic σ] (P : Params)
    (utf8 : Bytes → Bool) (a : ArS σ) (ops : List ROp) :
    ∀ o ∈ (ArS.run P utf8 a ops).2, ∀ site, o ≠ .err (.panic site) := by
  intro o ho site h
  have := ArS.run_noPanic P utf8 a ops o ho
  rw [h] at this
  simp [ROut.isPanic, Err.isPanic] at this

/-- the full stack of the format (raw ∘ encryption ∘ compression over a cursor) never panics -/
example (P : Params) (C : EncPrims) (K : Codec) (rd : Nat → Nat) :
    StreamNoPanic (CompRd P K rd (EncRd P C (RawR Cur))) := inferInstance

/-! ## 8. allocation: the index is never larger than the input -/

theorem alloc (utf8 : Bytes → Bool) (s : Bytes) (ix : Index) (h : parseFooter utf8 s = .ok ix) :
    ix.length ≤ s.length / 32 ∧ ∀ e ∈ ix, e.2.offsets.length ≤ s.length / 8 := by
  obtain ⟨h1, h2⟩ := parseFooter_alloc utf8 h
  refine ⟨by omega, fun e he => ?_⟩
  have := h2 e he
  omega

/-! ## Hostile concrete inputs -/

/-- `start 0 "a"` (bytes 0–17) ; `content 0 [1,2,3]` (18–37) ; `start 1 "b"` (38–55) -/
def hs : Bytes :=
  (Block.start 0 [97]).encode ++ (Block.content 0 [1, 2, 3]).encode ++ (Block.start 1 [98]).encode

instance : DecidableEq (Except Err (Btf × Bytes)) := fun a b =>
  match a, b with
  | .ok x, .ok y =>
    if h : x = y then isTrue (by rw [h]) else isFalse (by intro h'; injection h' with h'; exact h h')
  | .error x, .error y =>
    if h : x = y then isTrue (by rw [h]) else isFalse (by intro h'; injection h' with h'; exact h h')
  | .ok _, .error _ => isFalse (by intro h; cases h)
  | .error _, .ok _ => isFalse (by intro h; cases h)

/-- a `Btf` whose `curOff` is beyond its offsets list -/
example : Btf.read Params.prod (fun _ => true) hs ⟨18, .ready, 0, 7, [0, 18]⟩ 4 =
    .ok (⟨38, .ready, 0, 7, [0, 18]⟩, [1, 2, 3]) := by decide

/-- offsets pointing back and forth: the read at the block of another file jumps back to 18 -/
example : Btf.read Params.prod (fun _ => true) hs ⟨38, .ready, 0, 0, [0, 18, 18, 0, 38]⟩ 4 =
    .ok (⟨38, .ready, 0, 1, [0, 18, 18, 0, 38]⟩, [1, 2, 3]) := by decide

/-- a position far beyond the end, no offsets at all -/
example : Btf.read Params.prod (fun _ => true) hs ⟨1000, .inFile 5, 0, 0, []⟩ 4 =
    .ok (⟨1000, .inFile 5, 0, 0, []⟩, []) := by decide

/-- when the offsets run out the answer is an error, not a panic -/
example : Btf.read Params.prod (fun _ => true) hs ⟨38, .ready, 0, 4, [0, 18, 18, 0, 38]⟩ 4 =
    .error .state := by decide

def cur0 : Cur := ⟨[1, 2, 3, 4, 5], 0⟩
/-- the identity "codec" -/
def K0 : Codec :=
  ⟨Unit, fun _ => (), fun _ b => ((), b), fun _ => ((), []), fun _ => [], fun b => some b,
    fun b => (b, none, false)⟩

instance : DecidableEq (Except Err Bytes) := EncFS.instDecidableEqExceptErrBytes

/-- hostile sizes tables and block states for the compression reader: `⟨[], 7⟩` (no block but a
    non-zero last size), `⟨[3], 2⟩`, a state claiming a finished block, an empty block -/
example :
    (CompR.readFull (ι := Cur) Params.prod K0 id 3 ⟨cur0, some ⟨[], 7⟩, 0, .ready⟩ 4).2
      = .error .endOfStream ∧
    (CompR.readFull (ι := Cur) Params.prod K0 id 3 ⟨cur0, some ⟨[3], 2⟩, 0, .ready⟩ 4).2
      = .ok [1, 2] ∧
    (CompR.readFull (ι := Cur) Params.prod K0 id 3 ⟨cur0, some ⟨[3], 2⟩, 1, .inData 2 2 []⟩ 4).2
      = .error .io ∧
    (CompR.readFull (ι := Cur) Params.prod K0 id 3 ⟨cur0, some ⟨[3, 4], 0⟩, 0, .inData 0 0 []⟩ 4).2
      = .ok [1, 2, 3] := by decide

/-! ### `read_to_end` through a hostile offsets list -/

/-- index entry for `a` whose offsets list points `k` times at the same content block -/
def hix (k : Nat) : Index := [([97], ⟨0 :: List.replicate k 18, 3, 0⟩)]

/-- a hostile index: 25 visits of a 3-byte block read with 1-byte buffers need 75 reads of a 56-byte
    stream (a fuel of `|s| + 2` would run out); the answer is the regular error `state` when the
    offsets are exhausted -/
example : Reader.getFile Params.prod (fun _ => true) hs (hix 25) [97] 1 = .error .state := by decide

/-- with an empty buffer every read returns `[]` and `read_to_end` stops at once -/
example : Reader.getFile Params.prod (fun _ => true) hs (hix 25) [97] 0 = .ok [] := by decide

/-- `start 0 "a"` ; `content 0 [1,2,3]` (18–37) ; `start 1 "b"` (38–55) ; `eof 0 h` (56–96) -/
def hsAmp : Bytes := hs ++ (Block.eof 0 (List.replicate 32 0)).encode

/-- **amplification**: with offsets `[0, 18, 18, 18, 18, 56]` the 3 content bytes of the file are
    delivered five times by a successful `get_file` + `read_to_end`: the output size is bounded by
    `offsets.length × |content|`, not by the archive size. -/
theorem amplification :
    Reader.getFile Params.prod (fun _ => true) hsAmp [([97], ⟨[0, 18, 18, 18, 18, 56], 3, 56⟩)] [97] 8 =
      .ok [1, 2, 3, 1, 2, 3, 1, 2, 3, 1, 2, 3, 1, 2, 3] := by decide

end MlaModel.C08

/-
  C15 — Streaming keeps memory bounded independently of the amount of data.   *partial*

  The model's states hold what the Rust structs hold plus a few *ghosts* (the bytes hashed so far
  stand for a `Sha256` state, the ciphertext of the open chunk stands for the GCM state, the
  repair state's `ops` and linear extraction's `out` stand for calls already made / bytes already
  handed to the caller's writers).  `weight` below weighs the real fields — a ghost weighs the
  constant size of the Rust value it stands for — and the theorems bound it, after ANY sequence of
  calls, by

        constant(P) + a · files + 8 · runs + Σ name lengths

  where `runs` is the number of non-contiguous runs (entries of the `offsets` vectors).  The number
  of content bytes appended does not occur on the right-hand sides.

  One component of the real state does grow with the bytes streamed, and the model says so:
  the compression layer keeps one `u32` per closed 4 MiB block (`compressed_sizes`) until
  `finalize` — 4 bytes per `block` bytes (`C15.compress`): 1 KiB per GiB.

  Not carried by the model: the real heap (allocator, `HashMap` growth policy, brotli's internal
  buffers — bounded by assumption, `codecBound`).  The harness measures it.
-/
import MlaModel.Stack
import MlaModel.CodecStored
import MlaModel.Repair
import MlaModel.Proofs.EncryptWriter
import MlaModel.Proofs.CompressWriter
import MlaModel.Theorems.C07
namespace MlaModel.C15
open MlaModel

/-! ### constants (bytes; generous upper bounds of the Rust values, 64-bit target) -/

/-- `ArchiveWriter` fixed part: config (key, nonce, levels), `Box` of the stack, two empty
    `HashMap`s, counters -/
def cWriter : Nat := 512
/-- one `files_info` entry: `String` header 24 + id 8 + bucket overhead -/
def cName : Nat := 64
/-- one `ids_info` entry: key 8 + `Vec` header 24 + size 8 + eof 8 + bucket overhead -/
def cInfo : Nat := 80
/-- one opened file: `ids` entry 8 + `hashes` entry (key 8 + `Sha256` state 112 + overhead) -/
def cOpen : Nat := 160

/-! ### archive writer -/

def nameBytes (names : List (Bytes × Nat)) : Nat := (names.map fun e => e.1.length).sum

/-- total number of recorded run starts (`offsets` entries over all files) -/
def runsOf (info : List (Nat × FileInfo)) : Nat := (info.map fun e => e.2.offsets.length).sum

/-- Weight of the archive writer's state.  `opened` carries the bytes hashed so far as a ghost of a
    `Sha256` state: each open file weighs the constant `cOpen`, whatever was hashed. -/
def wweight (s : WState) : Nat :=
  cWriter + nameBytes s.names + cName * s.names.length + cInfo * s.info.length + 8 * runsOf s.info +
    cOpen * s.opened.length

/-- calls that register a file -/
def Op.files : Op → Nat
  | .start _ => 1
  | .add _ _ _ => 1
  | _ => 0

def Op.nameLen : Op → Nat
  | .start n => n.length
  | .add n _ _ => n.length
  | _ => 0

/-- a call that makes the writer leave the file it was writing (`mark_continuous_block` pushes an
    offset): an `append`/`end` that changes `current_id` -/
def isSwitch (P : Params) (H : Bytes → Bytes) (s : WState) (op : Op) : Nat :=
  match op with
  | .append _ _ _ => if (Writer.step P H s op).1.cur ≠ s.cur then 1 else 0
  | .end_ _ => if (Writer.step P H s op).1.cur ≠ s.cur then 1 else 0
  | _ => 0

/-- number of switches along a run -/
def switches (P : Params) (H : Bytes → Bytes) : WState → List Op → Nat
  | _, [] => 0
  | s, op :: ops => isSwitch P H s op + switches P H (Writer.step P H s op).1 ops

theorem aupdate_length {α} (k : Nat) (f : α → α) (l : List (Nat × α)) : (aupdate k f l).length = l.length := by
  induction l with
  | nil => rfl
  | cons e l ih => obtain ⟨k', v⟩ := e; simp only [aupdate]; split <;> simp [ih]

theorem aerase_length_le {α} (k : Nat) (l : List (Nat × α)) : (aerase k l).length ≤ l.length := by
  induction l with
  | nil => simp [aerase]
  | cons e l ih => obtain ⟨k', v⟩ := e; simp only [aerase]; split <;> simp <;> omega

theorem runsOf_aupdate_same (k : Nat) (f : FileInfo → FileInfo) (hf : ∀ fi, (f fi).offsets = fi.offsets)
    (l : List (Nat × FileInfo)) : runsOf (aupdate k f l) = runsOf l := by
  induction l with
  | nil => rfl
  | cons e l ih =>
    obtain ⟨k', v⟩ := e
    simp only [aupdate]
    split
    · simp [runsOf, hf]
    · simp only [runsOf, List.map_cons, List.sum_cons] at ih ⊢; omega

theorem runsOf_aupdate_push (k pos : Nat) (l : List (Nat × FileInfo)) :
    runsOf (aupdate k (fun fi => { fi with offsets := fi.offsets ++ [pos] }) l) ≤ runsOf l + 1 := by
  induction l with
  | nil => simp [aupdate, runsOf]
  | cons e l ih =>
    obtain ⟨k', v⟩ := e
    simp only [aupdate]
    split
    · simp [runsOf]; omega
    · simp only [runsOf, List.map_cons, List.sum_cons] at ih ⊢; omega

theorem runsOf_append (a b : List (Nat × FileInfo)) : runsOf (a ++ b) = runsOf a + runsOf b := by
  simp [runsOf]

theorem nameBytes_append (a b : List (Bytes × Nat)) : nameBytes (a ++ b) = nameBytes a + nameBytes b := by
  simp [nameBytes]

/-- the five measures of a state the weight is made of -/
structure Meas where
  files : Nat
  nbytes : Nat
  infos : Nat
  opened : Nat
  runs : Nat

def meas (s : WState) : Meas := ⟨s.names.length, nameBytes s.names, s.info.length, s.opened.length, runsOf s.info⟩

/-- `m'` exceeds `m` by at most `f` files with `n` name bytes and `r` runs -/
def Meas.Le (m' m : Meas) (f n r : Nat) : Prop :=
  m'.files ≤ m.files + f ∧ m'.nbytes ≤ m.nbytes + n ∧ m'.infos ≤ m.infos + f ∧
  m'.opened ≤ m.opened + f ∧ m'.runs ≤ m.runs + r

theorem markContinuous_meas (s : WState) (id : Nat) :
    (meas (s.markContinuous id)).Le (meas s) 0 0 (if (s.markContinuous id).cur ≠ s.cur then 1 else 0) ∧
    (s.markContinuous id).cur = id ∧ (s.markContinuous id).pos = s.pos ∧
    (s.markContinuous id).finalized = s.finalized ∧ (s.markContinuous id).opened = s.opened := by
  by_cases h : id = s.cur
  · have e : s.markContinuous id = s := by simp [WState.markContinuous, h]
    rw [e]
    exact ⟨⟨by simp, by simp, by simp, by simp, by simp⟩, h.symm, rfl, rfl, rfl⟩
  · have e : s.markContinuous id =
        { s with info := aupdate id (fun fi => { fi with offsets := fi.offsets ++ [s.pos] }) s.info, cur := id } := by
      simp [WState.markContinuous, h]
    rw [e]
    refine ⟨⟨by simp [meas], by simp [meas], by simp [meas, aupdate_length], by simp [meas], ?_⟩, rfl, rfl, rfl, rfl⟩
    simp only [meas, ne_eq, h, not_false_eq_true, if_true]
    exact runsOf_aupdate_push id s.pos s.info

section
variable (P : Params) (H : Bytes → Bytes)

theorem stepStart_meas (s : WState) (name : Bytes) :
    (meas (stepStart P s name).1).Le (meas s) 1 name.length 1 := by
  unfold stepStart
  split
  · exact ⟨by simp, by simp, by simp, by simp, by simp⟩
  · split
    · exact ⟨by simp, by simp, by simp, by simp, by simp⟩
    · split
      · exact ⟨by simp, by simp, by simp, by simp, by simp⟩
      · refine ⟨by simp [meas], ?_, by simp [meas], by simp [meas], ?_⟩
        · simp [meas, nameBytes]
        · simp [meas, runsOf]

theorem stepAppend_meas (s : WState) (id size : Nat) (src : Bytes) :
    (meas (stepAppend s id size src).1).Le (meas s) 0 0
      (if (stepAppend s id size src).1.cur ≠ s.cur then 1 else 0) := by
  unfold stepAppend
  split
  · exact ⟨by simp, by simp, by simp, by simp, by simp⟩
  · split
    · exact ⟨by simp, by simp, by simp, by simp, by simp⟩
    · split
      · exact ⟨by simp, by simp, by simp, by simp, by simp⟩
      · obtain ⟨⟨h1, h2, h3, h4, h5⟩, _, _, _, ho⟩ := markContinuous_meas s id
        simp only [meas] at h1 h2 h3 h4 h5 ⊢
        refine ⟨by simpa using h1, by simpa using h2, by simpa [aupdate_length] using h3,
          by simp [aupdate_length, ho], ?_⟩
        show runsOf _ ≤ _
        exact Nat.le_trans (Nat.le_of_eq (runsOf_aupdate_same _ _ (by intro fi; rfl) _)) h5

theorem stepEnd_meas (s : WState) (id : Nat) :
    (meas (stepEnd H s id).1).Le (meas s) 0 0 (if (stepEnd H s id).1.cur ≠ s.cur then 1 else 0) := by
  unfold stepEnd
  split
  · exact ⟨by simp, by simp, by simp, by simp, by simp⟩
  · split
    · exact ⟨by simp, by simp, by simp, by simp, by simp⟩
    · obtain ⟨⟨h1, h2, h3, h4, h5⟩, _, _, _, ho⟩ :=
        markContinuous_meas { s with opened := aerase id s.opened } id
      simp only [meas] at h1 h2 h3 h4 h5 ⊢
      refine ⟨by simpa using h1, by simpa using h2, by simpa [aupdate_length] using h3, ?_, ?_⟩
      · simp only [ho]; have := aerase_length_le id s.opened; omega
      · show runsOf _ ≤ _
        exact Nat.le_trans (Nat.le_of_eq (runsOf_aupdate_same _ _ (by intro fi; rfl) _)) h5

theorem Meas.Le.trans {a b c : Meas} {f n r f' n' r' : Nat} (h1 : a.Le b f n r) (h2 : b.Le c f' n' r') :
    a.Le c (f' + f) (n' + n) (r' + r) := by
  obtain ⟨a1, a2, a3, a4, a5⟩ := h1
  obtain ⟨b1, b2, b3, b4, b5⟩ := h2
  exact ⟨by omega, by omega, by omega, by omega, by omega⟩

theorem stepAppend_cur_same (s : WState) (id size : Nat) (src : Bytes) (h : s.cur = id) :
    (stepAppend s id size src).1.cur = s.cur := by
  unfold stepAppend
  split
  · rfl
  · split
    · rfl
    · split
      · rfl
      · simp [WState.markContinuous, h]

theorem stepEnd_cur_same (s : WState) (id : Nat) (h : s.cur = id) : (stepEnd H s id).1.cur = s.cur := by
  unfold stepEnd
  split
  · rfl
  · split
    · rfl
    · simp [WState.markContinuous, h]

theorem stepAppend_cur (s : WState) (id size : Nat) (src : Bytes) :
    (stepAppend s id size src).1.cur = s.cur ∨ (stepAppend s id size src).1.cur = id := by
  unfold stepAppend
  split
  · exact .inl rfl
  · split
    · exact .inl rfl
    · split
      · exact .inl rfl
      · exact .inr (markContinuous_meas s id).2.1

theorem stepStart_cur (s : WState) (name : Bytes) (id : Nat) (h : (stepStart P s name).2.1 = .id id) :
    (stepStart P s name).1.cur = id := by
  unfold stepStart at h ⊢
  split
  · rename_i hf; simp [hf] at h
  · rename_i hf
    split
    · rename_i hd; simp [hf, hd] at h
    · rename_i hd
      split
      · rename_i hl; simp [hf, hd, hl] at h
      · rename_i hl; simp [hf, hd, hl] at h; simpa using h

theorem stepAdd_meas (s : WState) (name : Bytes) (size : Nat) (src : Bytes) :
    (meas (stepAdd P H s name size src).1).Le (meas s) 1 name.length 1 := by
  have h1 := stepStart_meas P s name
  unfold stepAdd
  split
  · rename_i s1 id e1 heq
    have hs1 : (stepStart P s name).1 = s1 := by rw [heq]
    have hr : (stepStart P s name).2.1 = .id id := by rw [heq]
    have hcur : s1.cur = id := by rw [← hs1]; exact stepStart_cur P s name id hr
    rw [hs1] at h1
    have h2 := stepAppend_meas s1 id size src
    rw [stepAppend_cur_same s1 id size src hcur] at h2
    simp only [ne_eq, not_true_eq_false, if_false] at h2
    have hcur2 : (stepAppend s1 id size src).1.cur = id := by rw [stepAppend_cur_same s1 id size src hcur, hcur]
    split
    · rename_i s2 e e2 heq2
      have hs2 : (stepAppend s1 id size src).1 = s2 := by rw [heq2]
      rw [hs2] at h2
      have := h2.trans h1
      simpa using this
    · rename_i s2 r2 e2 hne heq2
      have hs2 : (stepAppend s1 id size src).1 = s2 := by rw [heq2]
      rw [hs2] at h2 hcur2
      have h3 := stepEnd_meas H s2 id
      rw [stepEnd_cur_same H s2 id hcur2] at h3
      simp only [ne_eq, not_true_eq_false, if_false] at h3
      have h123 := h3.trans (h2.trans h1)
      split <;> (rename_i heq3; rw [heq3] at h123; simpa using h123)
  · rename_i s1 r e1 hne heq
    have hs1 : (stepStart P s name).1 = s1 := by rw [heq]
    rw [hs1] at h1
    exact h1

/-- one call: at most `files` more files with `nameLen` more name bytes, and one more run per
    registered file or switch -/
theorem step_meas (s : WState) (op : Op) :
    (meas (Writer.step P H s op).1).Le (meas s) (Op.files op) (Op.nameLen op) (Op.files op + isSwitch P H s op) := by
  cases op with
  | start name => simpa [Writer.step, Op.files, Op.nameLen, isSwitch] using stepStart_meas P s name
  | append id size src =>
    have := stepAppend_meas s id size src
    simp only [Writer.step, Op.files, Op.nameLen, isSwitch, Nat.zero_add]; exact this
  | end_ id =>
    have := stepEnd_meas H s id
    simp only [Writer.step, Op.files, Op.nameLen, isSwitch, Nat.zero_add]; exact this
  | add name size src => simpa [Writer.step, Op.files, Op.nameLen, isSwitch] using stepAdd_meas P H s name size src
  | flush => exact ⟨by simp [Writer.step], by simp [Writer.step], by simp [Writer.step], by simp [Writer.step], by simp [Writer.step]⟩
  | finalize =>
    simp only [Writer.step, stepFinalize, Op.files, Op.nameLen, isSwitch]
    split
    · exact ⟨by simp, by simp, by simp, by simp, by simp⟩
    · split
      · exact ⟨by simp, by simp, by simp, by simp, by simp⟩
      · exact ⟨by simp [meas], by simp [meas], by simp [meas], by simp [meas], by simp [meas]⟩

def filesOf (ops : List Op) : Nat := (ops.map Op.files).sum
def nameLenOf (ops : List Op) : Nat := (ops.map Op.nameLen).sum

theorem runFrom_meas (ops : List Op) : ∀ s : WState,
    (meas (Writer.runFrom P H s ops).1).Le (meas s) (filesOf ops) (nameLenOf ops) (filesOf ops + switches P H s ops) := by
  induction ops with
  | nil => intro s; exact ⟨by simp [Writer.runFrom], by simp [Writer.runFrom], by simp [Writer.runFrom], by simp [Writer.runFrom], by simp [Writer.runFrom]⟩
  | cons op ops ih =>
    intro s
    have h1 := step_meas P H s op
    have h2 := ih (Writer.step P H s op).1
    have h := h2.trans h1
    have e : (Writer.runFrom P H s (op :: ops)).1 = (Writer.runFrom P H (Writer.step P H s op).1 ops).1 := by
      simp [Writer.runFrom]
    rw [e]
    obtain ⟨a1, a2, a3, a4, a5⟩ := h
    simp only [filesOf, nameLenOf, switches, List.map_cons, List.sum_cons] at *
    exact ⟨by omega, by omega, by omega, by omega, by omega⟩

/-- **C15.weight (archive writer).**  After ANY call sequence the weight of the writer's state is
    bounded by a constant, the name bytes, a constant per registered file and 8 bytes per
    non-contiguous run.  `filesOf`, `nameLenOf` and `switches` do not look at the sizes or the
    contents of `append`/`add`: the bound is independent of the number of bytes appended. -/
theorem weight_writer (ops : List Op) :
    wweight (Writer.run P H ops).1 ≤
      cWriter + nameLenOf ops + (cName + cInfo + cOpen + 8) * filesOf ops + 8 * switches P H WState.init ops := by
  have h := runFrom_meas P H ops WState.init
  have e0 : meas WState.init = ⟨0, 0, 0, 0, 0⟩ := rfl
  rw [e0] at h
  obtain ⟨a1, a2, a3, a4, a5⟩ := h
  simp only [meas, Nat.zero_add] at a1 a2 a3 a4 a5
  simp only [wweight, Writer.run, cName, cInfo, cOpen]
  omega

/-- the number of runs recorded (what the footer will list) is at most files + switches -/
theorem runs_writer (ops : List Op) :
    runsOf (Writer.run P H ops).1.info ≤ filesOf ops + switches P H WState.init ops := by
  have h := runFrom_meas P H ops WState.init
  have e0 : meas WState.init = ⟨0, 0, 0, 0, 0⟩ := rfl
  rw [e0] at h
  simpa [meas, Writer.run] using h.2.2.2.2

/-- appending to (or ending) the file being written is not a switch, whatever the size -/
theorem contiguous_no_switch (s : WState) (id size : Nat) (src : Bytes) (h : s.cur = id) :
    isSwitch P H s (.append id size src) = 0 ∧ isSwitch P H s (.end_ id) = 0 := by
  constructor
  · simp [isSwitch, Writer.step, stepAppend_cur_same s id size src h]
  · simp [isSwitch, Writer.step, stepEnd_cur_same H s id h]

/-- `flush` leaves the writer's state as it is -/
theorem flush_state (s : WState) : (Writer.step P H s .flush).1 = s := rfl

/-- a file appended in any number of pieces, **with a flush after each**, is still one contiguous run:
    no switch is counted however many calls (the memory bound of `weight_writer` does not grow with
    the number of calls either) -/
theorem flushed_appends_no_switch (id : Nat) (pieces : List Bytes) : ∀ s : WState, s.cur = id →
    switches P H s (pieces.flatMap fun p => [Op.append id p.length p, Op.flush]) = 0 := by
  induction pieces with
  | nil => intro s _; rfl
  | cons p ps ih =>
    intro s h
    have hc : (Writer.step P H s (.append id p.length p)).1.cur = s.cur := by
      simp only [Writer.step]; exact stepAppend_cur_same s id p.length p h
    simp only [List.flatMap_cons, List.cons_append, List.nil_append, switches, flush_state, isSwitch, hc,
      ne_eq, not_true_eq_false, if_false, Nat.zero_add]
    exact ih _ (hc.trans h)

/-- at most one switch per `append`/`end` call -/
theorem switches_le (ops : List Op) : ∀ s, switches P H s ops ≤ ops.length := by
  induction ops with
  | nil => intro s; simp [switches]
  | cons op ops ih =>
    intro s
    have : isSwitch P H s op ≤ 1 := by
      cases op <;> simp only [isSwitch] <;> first | split <;> omega | omega
    have := ih (Writer.step P H s op).1
    simp only [switches, List.length_cons]; omega

end

/-! ### encryption layer writer -/

/-- `EncryptionLayerWriter`: key 32, nonce prefix 8, `AesGcm256` (round keys, GHASH key and
    accumulator, counters), `current_chunk_offset` 8, `current_ctr` 4 — all of fixed size.  The
    model's `cur` (ciphertext of the open chunk) is a ghost of the GHASH accumulator and weighs
    nothing beyond it; it is itself bounded by `chunk` (`enc_ghost_bounded`). -/
def cEnc : Nat := 1024
def eweight (_ : EW) : Nat := cEnc

/-- the only allocation of `EncryptionLayerWriter::write` is its temporary buffer of `size` bytes,
    and `size ≤ CIPHER_BUF_SIZE` whatever the caller offers -/
theorem enc_transient_le (P : Params) (C : EncPrims) (w : EW) (buf : Bytes) : (w.write P C buf).2.1 ≤ P.cbuf := by
  simp only [EW.write]; omega

theorem enc_ghost_bounded (P : Params) (C : EncPrims) (pieces : List Bytes) :
    (encWritePieces P C pieces).1.cur.length ≤ P.chunk := (encWritePieces_inv P C pieces).le

/-! ### compression layer writer -/

/-- fixed part of `CompressionLayerWriter` (state tag, level, `Vec` header) -/
def cComp : Nat := 128

/-- Weight of the compression writer: the codec's state is bounded by assumption (`codecBound`:
    brotli's ring buffer, hash tables and output buffer for the configured window and level), plus
    one `u32` per closed block in `compressed_sizes`. -/
def cweight {K : Codec} (codecBound : Nat) (w : CW K) : Nat := cComp + codecBound + 4 * w.sizes.length

/-- **C15.compress.**  The one component that grows with the bytes streamed: 4 bytes per closed
    block of `P.block` bytes. -/
theorem compress (P : Params) (K : Codec) (hK : K.DecFinish) (level codecBound : Nat) (acts : List LAct) :
    cweight codecBound (compRun P K level acts).1 ≤
      cComp + codecBound + 4 * ((LAct.written acts).length / P.block) := by
  have hinv := compRun_inv P K hK level acts
  generalize compRun P K level acts = r at hinv
  obtain ⟨w, out⟩ := r
  obtain ⟨st, sizes, lvl⟩ := w
  obtain ⟨_, hst⟩ := hinv
  simp only [cweight]
  cases st with
  | ready => obtain ⟨hs, _, _⟩ := hst; have hs' : sizes = [] := hs; simp [hs']
  | inData written es cnt =>
    obtain ⟨done, eacts, hsz, _, _, _, _, hlen, _, _, _⟩ := hst
    have hsz : sizes = done.map List.length := hsz
    have : done.length ≤ (LAct.written acts).length / P.block := by
      rw [Nat.le_div_iff_mul_le P.hblock, hlen]; omega
    simp only [hsz, List.length_map]; omega

/-- **C15.weight.**  The whole writer stack (archive writer, compression writer, encryption
    writer; position and raw layers hold one counter) after ANY call sequence, any cut of the
    writes: constant + name bytes + a constant per file + 8 bytes per non-contiguous run, plus the
    compression layer's 4 bytes per closed block — the only term in which the amount of data
    occurs. -/
theorem weight (P : Params) (H : Bytes → Bytes) (K : Codec) (hK : K.DecFinish) (level codecBound : Nat)
    (cutTop : Cut) (ew : EW) (ops : List Op) :
    wweight (Writer.run P H ops).1 +
      cweight codecBound (compRun P K level (Stack.topActs P H cutTop 0 WState.init ops).1).1 + eweight ew ≤
    (cWriter + cComp + codecBound + cEnc) + nameLenOf ops + (cName + cInfo + cOpen + 8) * filesOf ops +
      8 * switches P H WState.init ops + 4 * ((Writer.run P H ops).2.2.length / P.block) := by
  have h1 := weight_writer P H ops
  have h2 := compress P K hK level codecBound (Stack.topActs P H cutTop 0 WState.init ops).1
  rw [C07.topActs_written] at h2
  simp only [eweight, Writer.run] at *
  omega

/-! ### repair (`convert_to_archive`) -/

def nb2 (m : List (Nat × Bytes)) : Nat := (m.map fun e => e.2.length).sum

/-- fixed part: four empty maps, the status value, the block header being decoded -/
def cRepair : Nat := 512

/-- Weight of the repair loop's own state.  `P.rcache` is the one `vec![0; CACHE_SIZE]` alive while
    a content block is copied; `hashed` carries the bytes hashed so far as a ghost of a `Sha256`
    state (constant `cOpen` per open file).  `ops`, `nextOut`, `outNames` are ghosts of the output
    `ArchiveWriter`, whose own state is bounded by `weight_writer` applied to `st.ops`. -/
def rweight (P : Params) (st : RepairSt) : Nat :=
  cRepair + P.rcache + 16 * st.id2out.length + nb2 st.id2name + cName * st.id2name.length +
    8 * st.done.length + cOpen * st.hashed.length

theorem filesOf_append (a b : List Op) : filesOf (a ++ b) = filesOf a + filesOf b := by simp [filesOf]
theorem nameLenOf_append (a b : List Op) : nameLenOf (a ++ b) = nameLenOf a + nameLenOf b := by simp [nameLenOf]

theorem filesOf_cons (a : Op) (l : List Op) : filesOf (a :: l) = Op.files a + filesOf l := by simp [filesOf]
theorem nameLenOf_cons (a : Op) (l : List Op) : nameLenOf (a :: l) = Op.nameLen a + nameLenOf l := by simp [nameLenOf]

theorem filesOf_appends (idOut : Nat) (pieces : List Bytes) :
    filesOf (pieces.map fun d => Op.append idOut d.length d) = 0 := by
  induction pieces with
  | nil => rfl
  | cons d l ih => rw [List.map_cons, filesOf_cons, ih]; rfl

theorem nameLenOf_appends (idOut : Nat) (pieces : List Bytes) :
    nameLenOf (pieces.map fun d => Op.append idOut d.length d) = 0 := by
  induction pieces with
  | nil => rfl
  | cons d l ih => rw [List.map_cons, nameLenOf_cons, ih]; rfl

theorem nb2_aerase_le (k : Nat) (l : List (Nat × Bytes)) : nb2 (aerase k l) ≤ nb2 l := by
  induction l with
  | nil => simp [aerase]
  | cons e l ih =>
    obtain ⟨k', v⟩ := e
    simp only [aerase]
    split
    · simp [nb2]
    · simp only [nb2, List.map_cons, List.sum_cons] at ih ⊢; omega

theorem aerase_length_of_lookup {α} (k : Nat) (l : List (Nat × α)) (v : α) (h : alookup k l = some v) :
    (aerase k l).length + 1 = l.length := by
  induction l with
  | nil => simp [alookup] at h
  | cons e l ih =>
    obtain ⟨k', v'⟩ := e
    simp only [alookup] at h
    simp only [aerase]
    split
    · simp
    · rename_i hne; simp only [hne, if_false] at h; simp [ih h]

/-- invariant of the repair loop's maps against the calls issued so far; `x`, `xb`: slack for the
    one name registered just before a `FilenameReuse` stop -/
structure RJ (st : RepairSt) (x xb : Nat) : Prop where
  out : st.id2out.length = filesOf st.ops
  dh : st.done.length + st.hashed.length ≤ st.id2out.length
  nm : st.id2name.length ≤ st.id2out.length + x
  nb : nb2 st.id2name ≤ nameLenOf st.ops + xb

def reuseLen : Stop → Nat
  | .filenameReuse n => n.length
  | _ => 0

theorem RJ.relax {st : RepairSt} (h : RJ st 0 0) (stop : Stop) : RJ st 1 (reuseLen stop) :=
  ⟨h.out, h.dh, by have := h.nm; omega, by have := h.nb; omega⟩

theorem loop_RJ (P : Params) (H : Bytes → Bytes) (utf8 : Bytes → Bool) (endErr : Bool) (fuel : Nat) :
    ∀ (s : Bytes) (st : RepairSt), RJ st 0 0 →
      RJ (Repair.loop P H utf8 endErr fuel s st).1 1 (reuseLen (Repair.loop P H utf8 endErr fuel s st).2) := by
  induction fuel with
  | zero => intro s st h; exact h.relax _
  | succ fuel ih =>
    intro s st h
    unfold Repair.loop
    split
    · exact h.relax _
    · exact h.relax _
    · exact h.relax _
    · -- start
      rename_i id name r _
      split
      · exact h.relax _
      · split
        · exact h.relax _
        · split
          · -- FilenameReuse: one more name, no call issued
            refine ⟨h.out, h.dh, ?_, ?_⟩
            · have := aerase_length_le id st.id2name; have := h.nm
              simp only [List.length_cons]; omega
            · have := nb2_aerase_le id st.id2name; have := h.nb
              simp only [reuseLen, nb2, List.map_cons, List.sum_cons] at *; omega
          · apply ih
            refine ⟨?_, ?_, ?_, ?_⟩
            · simp [filesOf_append, filesOf, Op.files, h.out]
            · have := aerase_length_le id st.hashed; have := h.dh
              simp only [List.length_cons, List.length_append, List.length_singleton]; omega
            · have := aerase_length_le id st.id2name; have := h.nm
              simp only [List.length_cons, List.length_append, List.length_singleton]; omega
            · have h1 := nb2_aerase_le id st.id2name
              have h2 := h.nb
              show nb2 ((id, name) :: aerase id st.id2name) ≤ nameLenOf (st.ops ++ [Op.start name]) + 0
              have e1 : nameLenOf [Op.start name] = name.length := by simp [nameLenOf, Op.nameLen]
              have e2 : nb2 ((id, name) :: aerase id st.id2name) = name.length + nb2 (aerase id st.id2name) := by
                simp [nb2]
              rw [nameLenOf_append, e1, e2]; omega
    · -- content
      rename_i id len r _
      split
      · exact h.relax _
      · rename_i idOut _
        split
        · exact h.relax _
        · have hj : RJ { st with
              ops := st.ops ++ (cachePieces P.rcache ((r.take len).length / P.rcache + 1) (r.take len)).map
                (fun d => Op.append idOut d.length d),
              hashed := aupdate id (fun h => h ++ r.take len) st.hashed } 0 0 :=
            ⟨by simp [filesOf_append, filesOf_appends, h.out], by simpa [aupdate_length] using h.dh,
             h.nm, by simpa [nameLenOf_append, nameLenOf_appends] using h.nb⟩
          dsimp only
          split
          · exact hj.relax _
          · exact ih _ _ hj
    · -- eof
      rename_i id hash r _
      split
      · exact h.relax _
      · rename_i idOut _
        split
        · exact h.relax _
        · split
          · exact h.relax _
          · rename_i hd hlk
            have hlen := aerase_length_of_lookup id st.hashed hd hlk
            dsimp only
            split
            · have hj : RJ { st with hashed := aerase id st.hashed } 0 0 :=
                ⟨h.out, by have := h.dh; simp only; omega, h.nm, h.nb⟩
              exact hj.relax _
            · apply ih
              refine ⟨by simp [filesOf_append, filesOf, Op.files, h.out], ?_, h.nm,
                by simpa [nameLenOf_append, nameLenOf, Op.nameLen] using h.nb⟩
              have := h.dh; simp only [List.length_cons]; omega

/-- **C15.weight (repair).**  Whatever bytes the damaged archive delivers, when the loop stops the
    weight of its own state is at most a constant, one cache buffer, a constant per file started in
    the output and the name bytes (plus the one name that caused a `FilenameReuse` stop).  The
    amount of file content copied does not occur. -/
theorem weight_repair (P : Params) (H : Bytes → Bytes) (utf8 : Bytes → Bool) (endErr : Bool) (fuel : Nat) (s : Bytes) :
    let r := Repair.loop P H utf8 endErr fuel s {}
    rweight P r.1 ≤ cRepair + P.rcache + (16 + cName + 8 + cOpen) * (filesOf r.1.ops + 1) +
      nameLenOf r.1.ops + reuseLen r.2 := by
  intro r
  have h : RJ r.1 1 (reuseLen r.2) :=
    loop_RJ P H utf8 endErr fuel s {} ⟨rfl, by simp, by simp, by simp [nb2, nameLenOf]⟩
  obtain ⟨h1, h2, h3, h4⟩ := h
  simp only [rweight, cName, cOpen]
  show _ ≤ cRepair + P.rcache + (16 + 64 + 8 + 160) * (filesOf r.1.ops + 1) + nameLenOf r.1.ops + reuseLen r.2
  omega

/-- the calls issued for one content block go to one output file: they are contiguous for the
    output writer (at most one switch, `contiguous_no_switch`), so the output writer's `runs` do not
    grow with the number of cache-sized pieces -/
theorem repair_pieces_same_id (idOut : Nat) (pieces : List Bytes) :
    ∀ op ∈ pieces.map (fun d => Op.append idOut d.length d), ∃ n d, op = Op.append idOut n d := by
  intro op hop
  obtain ⟨d, _, rfl⟩ := List.mem_map.mp hop
  exact ⟨_, _, rfl⟩

/-! ### linear extraction (`linear_extract`) -/

/-- weight of the id ↦ name map (`id2filename: HashMap<ArchiveFileID, String>`) -/
def lweight (m : List (Nat × Bytes)) : Nat := nb2 m + cName * m.length

/-- `Linear.loop` instrumented: also returns the largest weight of the id ↦ name map over all the
    states visited (`mw`) and a budget `b` that grows only when a `FileStart` block with a chosen
    name is met, by that name's length plus a constant.  The model's `out` (bytes handed to the
    caller's writers) is a ghost and is not weighed; the `ArchiveReader` the extraction runs on
    holds the footer index, whose size is by definition `Σ names + a·files + 8·runs`. -/
def loopW (P : Params) (utf8 : Bytes → Bool) (chosen : List Bytes) :
    Nat → Bytes → List (Nat × Bytes) → List (Bytes × Bytes) → Nat → Nat →
      Except Err (List (Bytes × Bytes)) × Nat × Nat
  | 0, _, _, _, mw, b => (.error (.panic "linear-fuel"), mw, b)
  | fuel+1, s, m, out, mw, b =>
    match Hdr.decode P utf8 s with
    | .error e => (.error e, max mw (lweight m), b)
    | .ok (.start id name, r) =>
      if chosen.contains name then
        loopW P utf8 chosen fuel r ((id, name) :: aerase id m) out (max mw (lweight m)) (b + (name.length + cName))
      else loopW P utf8 chosen fuel r m out (max mw (lweight m)) b
    | .ok (.eof id _, r) => loopW P utf8 chosen fuel r (aerase id m) out (max mw (lweight m)) b
    | .ok (.content id len, r) =>
      let out := match alookup id m with
        | some name => out.map fun (n, d) => if n = name then (n, d ++ r.take len) else (n, d)
        | none => out
      loopW P utf8 chosen fuel (r.drop len) m out (max mw (lweight m)) b
    | .ok (.eoad, _) => (.ok out, max mw (lweight m), b)

/-- the instrumentation does not change the result -/
theorem loopW_result (P : Params) (utf8 : Bytes → Bool) (chosen : List Bytes) (fuel : Nat) :
    ∀ s m out mw b, (loopW P utf8 chosen fuel s m out mw b).1 = Linear.loop P utf8 chosen fuel s m out := by
  induction fuel with
  | zero => intros; rfl
  | succ fuel ih =>
    intro s m out mw b
    unfold loopW Linear.loop
    cases hd : Hdr.decode P utf8 s with
    | error e => rfl
    | ok v =>
      obtain ⟨h, r⟩ := v
      cases h with
      | start id name =>
        by_cases hc : chosen.contains name = true
        · simp only [hc, if_true]; exact ih _ _ _ _ _
        · simp only [hc]; exact ih _ _ _ _ _
      | content id len => exact ih _ _ _ _ _
      | eof id hash => exact ih _ _ _ _ _
      | eoad => rfl

theorem lweight_aerase_le (k : Nat) (m : List (Nat × Bytes)) : lweight (aerase k m) ≤ lweight m := by
  have h1 := nb2_aerase_le k m
  have h2 := aerase_length_le k m
  have : cName * (aerase k m).length ≤ cName * m.length := Nat.mul_le_mul_left _ h2
  simp only [lweight]; omega

/-- **C15.weight (linear extraction).**  In every state the loop goes through, the id ↦ name map
    weighs at most the budget: the names of the chosen files started so far plus a constant each.
    Content blocks, whatever their length, change neither the map nor the budget. -/
theorem weight_linear (P : Params) (utf8 : Bytes → Bool) (chosen : List Bytes) (fuel : Nat) :
    ∀ s m out mw b, lweight m ≤ b → mw ≤ b →
      (loopW P utf8 chosen fuel s m out mw b).2.1 ≤ (loopW P utf8 chosen fuel s m out mw b).2.2 := by
  induction fuel with
  | zero => intro s m out mw b _ h; exact h
  | succ fuel ih =>
    intro s m out mw b hm hw
    have hmax : max mw (lweight m) ≤ b := Nat.max_le.mpr ⟨hw, hm⟩
    unfold loopW
    split
    · exact hmax
    · rename_i id name r _
      split
      · apply ih
        · have := lweight_aerase_le id m
          have e : lweight ((id, name) :: aerase id m) = name.length + cName + lweight (aerase id m) := by
            simp only [lweight, nb2, List.map_cons, List.sum_cons, List.length_cons, Nat.mul_add]; omega
          rw [e]; omega
        · omega
      · exact ih _ _ _ _ _ hm hmax
    · exact ih _ _ _ _ _ (Nat.le_trans (lweight_aerase_le _ m) hm) hmax
    · exact ih _ _ _ _ _ hm hmax
    · exact hmax

/-! ### Non-vacuity -/

section Examples

def toyP : Params := Params.scaled 4 3 8 2 5 (by decide)
def toyH (b : Bytes) : Bytes := List.replicate 32 (b.foldl (· + ·) 0)

/-- two files, interleaved: 2 files, 3 name bytes, 2 switches (file 0 resumed, file 1 ended after it) -/
def ops1 : List Op :=
  [.start [97], .append 0 3 [1, 2, 3], .start [98, 99], .append 1 2 [9, 9], .append 0 1 [4], .end_ 1, .end_ 0, .finalize]

/-- same calls with 1000 times the content: same files, names, switches — same bound -/
def ops2 : List Op :=
  [.start [97], .append 0 3000 (List.replicate 3000 1), .start [98, 99], .append 1 2000 (List.replicate 2000 9),
   .append 0 1000 (List.replicate 1000 4), .end_ 1, .end_ 0, .finalize]

example : filesOf ops1 = 2 ∧ nameLenOf ops1 = 3 ∧ switches toyP toyH WState.init ops1 = 3 ∧
    runsOf (Writer.run toyP toyH ops1).1.info = 5 ∧
    wweight (Writer.run toyP toyH ops1).1 = cWriter + 3 + (cName + cInfo) * 2 + 8 * 5 := by decide +kernel

example : filesOf ops2 = filesOf ops1 ∧ nameLenOf ops2 = nameLenOf ops1 ∧
    switches toyP toyH WState.init ops2 = switches toyP toyH WState.init ops1 ∧
    wweight (Writer.run toyP toyH ops2).1 = wweight (Writer.run toyP toyH ops1).1 := by decide +kernel

/-- `compress`: the hypothesis is satisfiable (`Codec.stored` satisfies the laws) — see
    `MlaModel.Codec.stored_laws`; three blocks of 8 bytes closed after 26 bytes -/
example : (compRun toyP Codec.stored 5 [.write (List.replicate 26 7)]).1.sizes.length = 3 := by decide +kernel

end Examples

end MlaModel.C15

/-
  C03 at the level of the ARCHIVE — alterations that keep the length of the sealed stream.

  "When an encrypted archive is altered in any way, the normal reader never returns a file byte that
   differs from the original byte at that position and never lists a name that was not in the
   original: it either still returns the original data or fails with an error."

  `Theorems/C03.lean` proves this for the encryption LAYER.  Here it is lifted to the archive reader
  (`MlaModel/ReaderS.lean`, `MlaModel/ArchiveS.lean`) for every alteration `e` of the sealed stream
  with `Unforged P C S e` and `e.length = (sealS P C S).length` (bit flips, byte replacements, chunk
  swaps, splices; NOT truncation/extension: known finding D14).

  1. `IsSoundPartial` (Proofs/PartialStream.lean): a stream that may fail but never lies.
  2. `enc_source`, `enc_init`: the encryption reader over such an `e` (held by ANY sound partial
     inner stream: a cursor, the raw layer over it — `raw_source`) is one
     (Proofs/EncryptPartial.lean).  Neither `e.length ≤ 2^32 · (chunk + tagLen)` nor a bound on the
     number of chunks is needed (a seek whose chunk index does not fit a u32 answers an error).
  3. `Sound` / `RunSound`: "matches the specification `C10.Matches` or answers an error" — the
     relation of `C10.RunMatches` with two more cases: a `read` that answers `.err` (the handle stays
     as it was), any other operation that answers `.err` (the handle is closed).
     `history_sound`: over ANY sound partial source of the block stream `S` of an accepted, finalized
     `ops`, for EVERY history `h`, the outputs of `ArS.run` are `RunSound (specOf ops) H`.
     `parseFooterS_sound`, `open_sound`: the footer parser over such a source fails or yields the
     genuine index.
     `open_read_sound`: after any history, `get_file name` + reads return `.opened |content|` (or an
     error) and data whose concatenation is a PREFIX of the original content, interleaved with
     error / closed-handle answers only.  `Sound.list_out`, `Sound.getSize_out`, `Sound.getHash_out`,
     `RunSound.nth`: names, sizes, hashes.  `RunSound.matches_of_no_err`: without error answers it is
     `C10.RunMatches`.
  4. `archive_tamper_sound`: `file = hdr ++ e`, opened through `Cur → RawR → EncRd`
     (`openArchive … .enc`): opening fails, or the index is the genuine one and every history is
     `RunSound`.
  5. Non-vacuity at the end: `exBad` of `Theorems/C03.lean`; a one-file archive with an altered slot,
     histories evaluated by the kernel (error answers followed by sound answers).
  6. `archive_tamper_sound_compEnc`: the same through `Cur → RawR → EncRd → CompRd`
     (Proofs/CompressPartial.lean: the compression reader over a sound partial inner stream is a
     sound partial stream).

  AFTER AN ERROR.  In the model an error answer of a stream carries no state (`Stream`), and
  `ArS.step` keeps the reader state it had before a failed `read`: the model continues a history
  from the state BEFORE the failed call.  The Rust objects do not: after a failed
  `BlocksToFileReader::read` the handle keeps `state` (`Ready`/`InFile(n)`; never `Finish`, which
  does not touch the source), `current_offset` may have been incremented, and the source is where
  the failed call left it.  For the encryption layer that is a state with `failed = true`
  (`enc_read_error_dead`; `EncR.seek_error_dead` for in-range seeks), abstractly a `Dead` state
  (`IsDead`): every read errs until an absolute seek succeeds.  All the statements here therefore
  start from ANY reader state `AInvP`: a good stream with a handle that agrees with the
  specification, OR a dead stream with an ARBITRARY unfinished handle (any `curOff`, any remaining
  count — `dead_handle_sound`), from which every `read` of that handle answers an error
  (`Tot.btfRead_dead`) and every other operation starts with an absolute seek.  What is argued
  informally only: that the state Rust is left in after a failed `BlocksToFileReader::read` IS of
  that form (the first failing call inside it is a call of the source, since up to there the run
  follows the error-free run over genuine data; the model has no state-keeping variant of
  `BtfS.read` to state it).  No continuation returning a wrong byte was found.
-/
import MlaModel.Theorems.C03
import MlaModel.Theorems.C01Stack
import MlaModel.Proofs.EncryptPartial
import MlaModel.Proofs.CompressPartial
namespace MlaModel.C03
open MlaModel

/-! ### "matches the specification, or answers an error" -/

/-- `Sound files H q op out q'`: in specification state `q` the answer `out` to `op` is the one the
    specification allows (`C10.Matches`), or it is an error: of a `read` (the handle stays), or of
    another operation (the handle is closed). -/
inductive Sound (files : List (Bytes × Bytes)) (H : Bytes → Bytes) :
    C10.HSpec → ROp → ROut → C10.HSpec → Prop where
  | ok {q q' : C10.HSpec} {op : ROp} {o : ROut} (h : C10.Matches files H q op o q') :
      Sound files H q op o q'
  | errRead (q : C10.HSpec) (n : Nat) (e : Err) : Sound files H q (.read n) (.err e) q
  | err (q : C10.HSpec) (op : ROp) (e : Err) (hop : ∀ n, op ≠ .read n) :
      Sound files H q op (.err e) none

/-- a whole history is sound step by step -/
inductive RunSound (files : List (Bytes × Bytes)) (H : Bytes → Bytes) :
    C10.HSpec → List ROp → List ROut → C10.HSpec → Prop where
  | nil (q : C10.HSpec) : RunSound files H q [] [] q
  | cons {q q1 q' : C10.HSpec} {op : ROp} {o : ROut} {ops : List ROp} {os : List ROut}
      (h1 : Sound files H q op o q1) (h2 : RunSound files H q1 ops os q') :
      RunSound files H q (op :: ops) (o :: os) q'

/-- a history without errors that is `RunSound` is `C10.RunMatches` -/
theorem RunSound.matches_of_no_err {files : List (Bytes × Bytes)} {H : Bytes → Bytes}
    {q q' : C10.HSpec} {h : List ROp} {outs : List ROut} (hr : RunSound files H q h outs q')
    (hne : ∀ e, ROut.err e ∉ outs) : C10.RunMatches files H q h outs q' := by
  induction hr with
  | nil q => exact C10.RunMatches.nil q
  | cons h1 _ ih =>
    have ht := ih (fun e hm => hne e (List.mem_cons_of_mem _ hm))
    cases h1 with
    | ok hm => exact C10.RunMatches.cons hm ht
    | errRead n e => exact absurd (List.mem_cons_self) (hne e)
    | err _ e _ => exact absurd (List.mem_cons_self) (hne e)

/-- the bytes carried by the `.data` answers of a list of outputs -/
def dataOf : List ROut → Bytes
  | [] => []
  | .data b :: os => b ++ dataOf os
  | _ :: os => dataOf os

section spec
variable {files : List (Bytes × Bytes)} {H : Bytes → Bytes}

theorem Matches.of_none {q q' : C10.HSpec} {op : ROp} {o : ROut} (hop : ∀ n, op ≠ .read n)
    (h : C10.Matches files H none op o q') : C10.Matches files H q op o q' := by
  cases h with
  | list => exact .list q
  | size _ name content hm => exact .size q name content hm
  | sizeNone _ name hm => exact .sizeNone q name hm
  | hash _ name content hm => exact .hash q name content hm
  | hashNone _ name hm => exact .hashNone q name hm
  | opened _ name content hm => exact .opened q name content hm
  | openNone _ name hm => exact .openNone q name hm
  | drop => exact .drop q
  | noHandle n => exact absurd rfl (hop n)

/-- every step of a sound history is a sound answer from some specification state -/
theorem RunSound.nth {q q' : C10.HSpec} {h : List ROp} {outs : List ROut}
    (hr : RunSound files H q h outs q') (i : Nat) (op : ROp) (o : ROut) (hop : h[i]? = some op)
    (ho : outs[i]? = some o) : ∃ q1 q2, Sound files H q1 op o q2 := by
  induction hr generalizing i with
  | nil q => simp at hop
  | cons h1 _ ih =>
    cases i with
    | zero =>
      simp only [List.getElem?_cons_zero, Option.some.injEq] at hop ho
      subst hop; subst ho
      exact ⟨_, _, h1⟩
    | succ i =>
      simp only [List.getElem?_cons_succ] at hop ho
      exact ih i hop ho

theorem RunSound.length_eq {q q' : C10.HSpec} {h : List ROp} {outs : List ROut}
    (hr : RunSound files H q h outs q') : outs.length = h.length := by
  induction hr with
  | nil q => rfl
  | cons _ _ ih => simp [ih]

/-- **names**: a sound answer to `list` is the original list of names (or an error) -/
theorem Sound.list_out {q q' : C10.HSpec} {o : ROut} (h : Sound files H q .list o q') :
    o = .names (files.map (·.1)) ∨ ∃ e, o = .err e := by
  cases h with
  | ok hm => exact .inl hm.list_out.1
  | err _ e _ => exact .inr ⟨e, rfl⟩

/-- **size**: a sound answer to a size lookup is the original size, "no such name" for a name that
    was not in the original, or an error -/
theorem Sound.getSize_out {q q' : C10.HSpec} {name : Bytes} {o : ROut}
    (h : Sound files H q (.getSize name) o q') :
    (∃ content, (name, content) ∈ files ∧ o = .size content.length) ∨
    (name ∉ files.map (·.1) ∧ o = .none_) ∨ ∃ e, o = .err e := by
  cases h with
  | ok hm =>
    cases hm with
    | size _ _ content hm' => exact .inl ⟨content, hm', rfl⟩
    | sizeNone _ _ hm' => exact .inr (.inl ⟨hm', rfl⟩)
  | err _ e _ => exact .inr (.inr ⟨e, rfl⟩)

/-- **hash**: a sound answer to `get_hash` is the hash of the original content, "no such name" for a
    name that was not in the original, or an error -/
theorem Sound.getHash_out {q q' : C10.HSpec} {name : Bytes} {o : ROut}
    (h : Sound files H q (.getHash name) o q') :
    (∃ content, (name, content) ∈ files ∧ o = .hash (H content)) ∨
    (name ∉ files.map (·.1) ∧ o = .none_) ∨ ∃ e, o = .err e := by
  cases h with
  | ok hm =>
    cases hm with
    | hash _ _ content hm' => exact .inl ⟨content, hm', rfl⟩
    | hashNone _ _ hm' => exact .inr (.inl ⟨hm', rfl⟩)
  | err _ e _ => exact .inr (.inr ⟨e, rfl⟩)

/-- reads on a closed handle answer `noHandle` or an error: no data -/
theorem reads_closed (ns : List Nat) : ∀ (outs : List ROut) (q' : C10.HSpec),
    RunSound files H none (ns.map .read) outs q' →
    dataOf outs = [] ∧ ∀ o ∈ outs, o = .noHandle ∨ ∃ e, o = .err e := by
  induction ns with
  | nil => intro outs q' h; cases h; simp [dataOf]
  | cons n ns ih =>
    intro outs q' h
    simp only [List.map_cons] at h
    cases h with
    | cons h1 h2 =>
      cases h1 with
      | ok hm =>
        cases hm with
        | noHandle _ =>
          obtain ⟨a, b⟩ := ih _ _ h2
          refine ⟨by simpa [dataOf] using a, ?_⟩
          intro o ho
          rcases List.mem_cons.1 ho with rfl | ho
          · exact .inl rfl
          · exact b o ho
      | errRead _ e =>
        obtain ⟨a, b⟩ := ih _ _ h2
        refine ⟨by simpa [dataOf] using a, ?_⟩
        intro o ho
        rcases List.mem_cons.1 ho with rfl | ho
        · exact .inr ⟨e, rfl⟩
        · exact b o ho
      | err _ e hop => exact absurd rfl (hop n)

/-- **data**: reads on the handle of `name` — whatever errors occur in between — return data whose
    concatenation, after what was already delivered, is a prefix of the original content -/
theorem reads_sound (hnd : (files.map (·.1)).Nodup) {name content : Bytes}
    (hm : (name, content) ∈ files) (ns : List Nat) :
    ∀ (del : Bytes) (outs : List ROut) (q' : C10.HSpec), del <+: content →
      RunSound files H (some (name, del)) (ns.map .read) outs q' →
      del ++ dataOf outs <+: content ∧ ∀ o ∈ outs, (∃ b, o = .data b) ∨ ∃ e, o = .err e := by
  induction ns with
  | nil => intro del outs q' hdel h; cases h; simpa [dataOf] using hdel
  | cons n ns ih =>
    intro del outs q' hdel h
    simp only [List.map_cons] at h
    cases h with
    | cons h1 h2 =>
      cases h1 with
      | ok hmt =>
        cases hmt with
        | read _ _ c _ b hm' hpre hlen hprog =>
          have hc : c = content := C10.content_unique hnd hm' hm
          subst hc
          obtain ⟨a, b'⟩ := ih _ _ _ hpre h2
          refine ⟨by simpa [dataOf] using a, ?_⟩
          intro o ho
          rcases List.mem_cons.1 ho with rfl | ho
          · exact .inl ⟨b, rfl⟩
          · exact b' o ho
      | errRead _ e =>
        obtain ⟨a, b'⟩ := ih _ _ _ hdel h2
        refine ⟨by simpa [dataOf] using a, ?_⟩
        intro o ho
        rcases List.mem_cons.1 ho with rfl | ho
        · exact .inr ⟨e, rfl⟩
        · exact b' o ho
      | err _ e hop => exact absurd rfl (hop n)

/-- **opening and reading a file**, in any sound history: `get_file name` answers the original size
    or an error, and the reads that follow return data whose concatenation is a PREFIX of the
    original content, possibly interleaved with error / closed-handle answers -/
theorem open_reads_sound (hnd : (files.map (·.1)).Nodup) {name content : Bytes}
    (hm : (name, content) ∈ files) (ns : List Nat) (q q' : C10.HSpec) (outs : List ROut)
    (h : RunSound files H q (.getFile name :: ns.map .read) outs q') :
    ∃ o os, outs = o :: os ∧ (o = .opened content.length ∨ ∃ e, o = .err e) ∧
      dataOf os <+: content ∧
      ∀ o' ∈ os, (∃ b, o' = .data b) ∨ (∃ e, o' = .err e) ∨ o' = .noHandle := by
  cases h with
  | cons h1 h2 =>
    refine ⟨_, _, rfl, ?_⟩
    cases h1 with
    | ok hmt =>
      obtain ⟨rfl, rfl⟩ := hmt.getFile_out hnd hm
      obtain ⟨a, b⟩ := reads_sound hnd hm ns [] _ _ List.nil_prefix h2
      refine ⟨.inl rfl, by simpa using a, ?_⟩
      intro o' ho'
      rcases b o' ho' with h | h
      · exact .inl h
      · exact .inr (.inl h)
    | err _ e _ =>
      obtain ⟨a, b⟩ := reads_closed ns _ _ h2
      refine ⟨.inr ⟨e, rfl⟩, by rw [a]; exact List.nil_prefix, ?_⟩
      intro o' ho'
      rcases b o' ho' with h | h
      · exact .inr (.inr h)
      · exact .inr (.inl h)

end spec

/-! ### the archive reader over a sound partial source -/

section
variable {σ : Type} [Stream σ] {Inv Dead : σ → Prop} {abs : σ → Nat}
variable {P : Params} {utf8 : Bytes → Bool} {H : Bytes → Bytes} {data tail : Bytes}
variable {nb : List Block} {ix : Index} {files : List (Bytes × Bytes)}

/-- the reader state `a` is harmless with respect to the specification state `q`:
    * either the stream is in a good state and the handle (if any) agrees with `q` — the invariant
      `C10.AInv` of the cursor case, read through the totalisation;
    * or the stream is DEAD (every read errs until an absolute seek succeeds), with the genuine
      index and ANY handle that is not finished (any `curOff`, any remaining count: what a failed
      `BlocksToFileReader::read` leaves behind); without handle the specification has none either. -/
def AInvP (Inv Dead : σ → Prop) (abs : σ → Nat) (P : Params) (utf8 : Bytes → Bool)
    (data tail : Bytes) (ix : Index) (files : List (Bytes × Bytes)) (q : C10.HSpec) (a : ArS σ) :
    Prop :=
  C10.AInv (Tot.InvT (abs := abs) (data := data) Inv Dead) Tot.absT P utf8 data tail ix files q
    (Tot.liftA abs data a) ∨
  (Dead a.src ∧ a.ix = ix ∧
    match a.handle with
    | none => q = none
    | some (st, _, _, _) => st ≠ .finish)

omit [Stream σ] in
/-- no handle, the genuine index, a good or dead stream -/
theorem AInvP.closed (src : σ) (hs : Inv src ∨ Dead src) :
    AInvP Inv Dead abs P utf8 data tail ix files none ⟨src, ix, none⟩ :=
  .inl ⟨hs, rfl, rfl⟩

omit [Stream σ] in
theorem AInvP.src {q : C10.HSpec} {a : ArS σ}
    (h : AInvP Inv Dead abs P utf8 data tail ix files q a) : (Inv a.src ∨ Dead a.src) ∧ a.ix = ix := by
  rcases h with h | h
  · exact ⟨h.1, h.2.1⟩
  · exact ⟨.inr h.1, h.2.1⟩

theorem step_drop_handle (a : ArS σ) (op : ROp) (hop : ∀ n, op ≠ .read n) :
    ArS.step P utf8 a op = ArS.step P utf8 { a with handle := none } op := by
  cases op with
  | read n => exact absurd rfl (hop n)
  | list => rfl
  | drop => rfl
  | getSize name => rfl
  | getHash name => rfl
  | getFile name => rfl

/-- **one operation**, from any harmless reader state: the answer is sound, the state stays
    harmless -/
theorem step_sound (hP : IsSoundPartial Inv abs data) (hD : IsDead Inv abs data Dead)
    (hA : C10.Arch P utf8 H data tail nb ix files) (q : C10.HSpec) (a : ArS σ)
    (h : AInvP Inv Dead abs P utf8 data tail ix files q a) (op : ROp) :
    ∃ q', Sound files H q op (ArS.step P utf8 a op).2 q' ∧
      AInvP Inv Dead abs P utf8 data tail ix files q' (ArS.step P utf8 a op).1 := by
  have hT := Tot.isCursor hP hD
  obtain ⟨hsrc, hix⟩ := h.src
  by_cases herr : ∃ e, (ArS.step P utf8 a op).2 = .err e
  · obtain ⟨e, he⟩ := herr
    obtain ⟨h1, h2, h3⟩ := Tot.step_err hP hD a op e hsrc he
    rcases h3 with ⟨n, rfl, ha'⟩ | ⟨hnr, hh⟩
    · exact ⟨q, by rw [he]; exact Sound.errRead q n e, by rw [ha']; exact h⟩
    · refine ⟨none, by rw [he]; exact Sound.err q op e hnr, ?_⟩
      rcases h1 with hi | hd
      · exact .inl ⟨.inl hi, by show (ArS.step P utf8 a op).1.ix = ix; rw [h2, hix], hh⟩
      · refine .inr ⟨hd, by rw [h2, hix], ?_⟩
        rw [hh]
  · have hne : ∀ e, (ArS.step P utf8 a op).2 ≠ .err e := fun e he => herr ⟨e, he⟩
    have hgood : ∀ (q0 : C10.HSpec) (a0 : ArS σ),
        ArS.step P utf8 a0 op = ArS.step P utf8 a op →
        C10.AInv (Tot.InvT (abs := abs) (data := data) Inv Dead) Tot.absT P utf8 data tail ix files q0
          (Tot.liftA abs data a0) →
        ∃ q', C10.Matches files H q0 op (ArS.step P utf8 a op).2 q' ∧
          AInvP Inv Dead abs P utf8 data tail ix files q' (ArS.step P utf8 a op).1 := by
      intro q0 a0 heq hg
      obtain ⟨q', hm, ha'⟩ := C10.step_matches hT hA q0 (Tot.liftA abs data a0) hg op
      rw [Tot.step_live a0 op (by rw [heq]; exact hne), heq] at hm ha'
      exact ⟨q', hm, .inl ha'⟩
    rcases h with hg | ⟨hd, _, hh⟩
    · obtain ⟨q', hm, ha'⟩ := hgood q a rfl hg
      exact ⟨q', .ok hm, ha'⟩
    · by_cases hop : ∀ n, op ≠ .read n
      · -- the operation starts with an absolute seek (or does not touch the stream) and ignores the handle
        obtain ⟨q', hm, ha'⟩ := hgood none { a with handle := none }
          (step_drop_handle a op hop).symm ⟨.inr hd, hix, rfl⟩
        exact ⟨q', .ok (Matches.of_none hop hm), ha'⟩
      · have hop' : ∃ n, op = .read n := by
          cases op with
          | read n => exact ⟨n, rfl⟩
          | list => exact absurd (fun n => by simp) hop
          | drop => exact absurd (fun n => by simp) hop
          | getSize _ => exact absurd (fun n => by simp) hop
          | getHash _ => exact absurd (fun n => by simp) hop
          | getFile _ => exact absurd (fun n => by simp) hop
        obtain ⟨n, rfl⟩ := hop'
        obtain ⟨src, ix', handle⟩ := a
        cases handle with
        | none =>
          simp only at hh
          subst hh
          exact ⟨none, .ok (C10.Matches.noHandle n), .inr ⟨hd, hix, rfl⟩⟩
        | some hd' =>
          obtain ⟨st, id, co, offs⟩ := hd'
          simp only at hh
          obtain ⟨e, he⟩ := Tot.btfRead_dead hD (P := P) (utf8 := utf8) src st id co offs n hd hh
          exact absurd (by simp [ArS.step, he]) (hne e)

/-- **a whole history**, from any harmless reader state -/
theorem run_sound (hP : IsSoundPartial Inv abs data) (hD : IsDead Inv abs data Dead)
    (hA : C10.Arch P utf8 H data tail nb ix files) (h : List ROp) :
    ∀ (q : C10.HSpec) (a : ArS σ), AInvP Inv Dead abs P utf8 data tail ix files q a →
    ∃ q', RunSound files H q h (ArS.run P utf8 a h).2 q' ∧
      AInvP Inv Dead abs P utf8 data tail ix files q' (ArS.run P utf8 a h).1 := by
  induction h with
  | nil => intro q a ha; exact ⟨q, RunSound.nil q, ha⟩
  | cons op h ih =>
    intro q a ha
    obtain ⟨q1, hm, ha1⟩ := step_sound hP hD hA q a ha op
    obtain ⟨q', hr, ha'⟩ := ih q1 _ ha1
    exact ⟨q', RunSound.cons hm hr, ha'⟩

/-- **the footer over a sound partial source**: `ArchiveFooter::deserialize_from` fails, or returns
    exactly what `parseFooter` returns on the genuine data, and leaves the stream in a good state -/
theorem parseFooterS_sound (hP : IsSoundPartial Inv abs data) (hD : IsDead Inv abs data Dead)
    (utf8 : Bytes → Bool) (s : σ) (hs : Inv s ∨ Dead s) (ix0 : Index)
    (hpf : parseFooter utf8 data = .ok ix0) (s' : σ) (ix : Index)
    (h : parseFooterS utf8 s = (s', .ok ix)) : ix = ix0 ∧ (Inv s' ∨ Dead s') := by
  have hT := Tot.isCursor hP hD
  have hl := Tot.parseFooterS_live (abs := abs) (data := data) h
  obtain ⟨t', ht', hi'⟩ := parseFooterS_ok hT utf8 (Tot.live s : Tot σ abs data) hs ix0 hpf
  rw [hl] at ht'
  simp only [Prod.mk.injEq, Except.ok.injEq] at ht'
  obtain ⟨rfl, rfl⟩ := ht'
  exact ⟨rfl, hi'⟩

end

/-! ### C03 for the archives the writer produces, over any sound partial source -/

section
variable (P : Params) (H : Bytes → Bytes) (utf8 : Bytes → Bool) (ops : List MlaModel.Op)
  (hH : ∀ b, (H b).length = hashLen)         -- the hash has 32 bytes
  (hwf : ∀ op ∈ ops, op.WF utf8)             -- names valid UTF-8, sizes < 2^64
  (hacc : AllAccepted P H ops)               -- every call accepted
  (hfin : ops.getLast? = some .finalize)     -- ends with finalize
  (hlen : ops.length < U64)                  -- fewer than 2^64 calls
  (hpos : (Writer.run P H ops).2.2.length < U64) -- the stream is shorter than 2^64 bytes
  {σ : Type} [Stream σ] (Inv Dead : σ → Prop) (abs : σ → Nat)
  (hP : IsSoundPartial Inv abs (Writer.run P H ops).2.2) -- the source may fail but never lies
  (hD : IsDead Inv abs (Writer.run P H ops).2.2 Dead)
include hH hwf hacc hfin hlen hpos hP hD

/-- **C03.history_from** — from ANY harmless reader state (in particular: a dead stream under an
    arbitrary unfinished handle, as the Rust objects are after a failed read), for EVERY history,
    every answer is the one the specification determines or an error. -/
theorem history_from (h : List ROp) (q : C10.HSpec) (a : ArS σ)
    (ha : ∀ tail, AInvP Inv Dead abs P utf8 (Writer.run P H ops).2.2 tail
      (Writer.run P H ops).1.index (specOf ops) q a) :
    ∃ q', RunSound (specOf ops) H q h (ArS.run P utf8 a h).2 q' := by
  obtain ⟨tail, nb, hA⟩ := C10.arch_of_run P H utf8 ops hH hwf hacc hfin hlen hpos
  obtain ⟨q', hr, _⟩ := run_sound hP hD hA h q a (ha tail)
  exact ⟨q', hr⟩

/-- **C03.history_sound** — the reader over a sound partial source of the block stream, started
    with the genuine index, no open handle and the stream in a good (or dead) state at ANY position:
    for EVERY history `h`, every output of `ArS.run` is an error answer or exactly the answer
    `specOf ops` determines (names listed = original names; size and hash = original; data of reads
    = the file's genuine bytes after what the handle already delivered). -/
theorem history_sound (a₀ : ArS σ) (h0 : Inv a₀.src ∨ Dead a₀.src)
    (hix : a₀.ix = (Writer.run P H ops).1.index) (hh : a₀.handle = none) (h : List ROp) :
    ∃ q', RunSound (specOf ops) H none h (ArS.run P utf8 a₀ h).2 q' :=
  history_from P H utf8 ops hH hwf hacc hfin hlen hpos Inv Dead abs hP hD h none a₀
    (fun _ => .inl ⟨h0, hix, hh⟩)

/-- **C03.dead_handle_sound** — the situation after a failed `BlocksToFileReader::read` in Rust: the
    stream is dead, the handle is whatever it was (any state but `Finish`, any `curOff`).  Every
    continuation is sound: the reads of that handle answer errors, everything else as usual. -/
theorem dead_handle_sound (src : σ) (hd : Dead src) (st : BtfSt) (id co : Nat) (offs : List Nat)
    (hst : st ≠ .finish) (q : C10.HSpec) (h : List ROp) :
    ∃ q', RunSound (specOf ops) H q h
      (ArS.run P utf8 ⟨src, (Writer.run P H ops).1.index, some (st, id, co, offs)⟩ h).2 q' :=
  history_from P H utf8 ops hH hwf hacc hfin hlen hpos Inv Dead abs hP hD h q _
    (fun _ => .inr ⟨hd, rfl, hst⟩)

/-- **C03.open_read_sound** — after ANY history `h`, opening `name` and reading it with buffers `ns`:
    `get_file` answers the original size or an error; the reads return data whose concatenation is a
    PREFIX of the original content, possibly interleaved with error / closed-handle answers. -/
theorem open_read_sound (a₀ : ArS σ) (h0 : Inv a₀.src ∨ Dead a₀.src)
    (hix : a₀.ix = (Writer.run P H ops).1.index) (hh : a₀.handle = none) (h : List ROp)
    (name content : Bytes) (hm : (name, content) ∈ specOf ops) (ns : List Nat) :
    ∃ o os, (ArS.run P utf8 a₀ (h ++ .getFile name :: ns.map .read)).2 =
        (ArS.run P utf8 a₀ h).2 ++ o :: os ∧
      (o = .opened content.length ∨ ∃ e, o = .err e) ∧ dataOf os <+: content ∧
      ∀ o' ∈ os, (∃ b, o' = .data b) ∨ (∃ e, o' = .err e) ∨ o' = .noHandle := by
  obtain ⟨tail, nb, hA⟩ := C10.arch_of_run P H utf8 ops hH hwf hacc hfin hlen hpos
  obtain ⟨q, _, ha⟩ := run_sound hP hD hA h none a₀ (.inl ⟨h0, hix, hh⟩)
  obtain ⟨q', hr, _⟩ := run_sound hP hD hA (.getFile name :: ns.map .read) q _ ha
  obtain ⟨o, os, ho, h1, h2, h3⟩ := open_reads_sound hA.nodup hm ns q q' _ hr
  exact ⟨o, os, by rw [C10.run_append, ho], h1, h2, h3⟩

variable (hfoot : (encFooter (Writer.run P H ops).1.names (Writer.run P H ops).1.info).length - 4 < U32)
include hfoot

/-- **C03.open_sound** — opening the archive over a sound partial source (`parseFooterS`, from any
    good or dead state of the stream): it fails, or the index is the GENUINE one and every history
    on the reader it yields is sound. -/
theorem open_sound (s : σ) (hs : Inv s ∨ Dead s) (s' : σ) (ix : Index)
    (hopen : parseFooterS utf8 s = (s', .ok ix)) :
    ix = (Writer.run P H ops).1.index ∧
    ∀ h : List ROp, ∃ q', RunSound (specOf ops) H none h (ArS.run P utf8 ⟨s', ix, none⟩ h).2 q' := by
  have hpf := C01.archive P H utf8 ops hH hwf hacc hfin hlen hpos hfoot
  obtain ⟨rfl, hs'⟩ := parseFooterS_sound hP hD utf8 s hs _ hpf s' ix hopen
  exact ⟨rfl, fun h => history_sound P H utf8 ops hH hwf hacc hfin hlen hpos Inv Dead abs hP hD
    ⟨s', _, none⟩ hs' rfl rfl h⟩

end

/-! ### the encryption reader over an altered sealed stream of the right length -/

section
variable {ι : Type} [Stream ι] (P : Params) (C : EncPrims) (hC : C11.EncPrims.Laws P C)
  {InvI : ι → Prop} {absI : ι → Nat} (p e : Bytes)
  (hF : IsSoundPartial InvI absI e)              -- the inner stream holds `e` (it may fail too)
  (hU : Unforged P C p e)                        -- integrity (INT-CTXT) of what it holds
  (hlenE : e.length = (sealS P C p).length)      -- the alteration keeps the length (else: D14)
include hC hF hU hlenE

/-- **C03.enc_source** — over an equal-length `Unforged` alteration `e` of `sealS P C p`, the
    encryption reader is a sound partial reader of the plaintext `p` (invariant `EncRd.SInv`,
    position `posOf`), and its failed states are dead. -/
theorem enc_source :
    IsSoundPartial (σ := EncRd P C ι) (EncRd.SInv P C p InvI absI) (fun s => posOf P s.r) p ∧
    IsDead (σ := EncRd P C ι) (EncRd.SInv P C p InvI absI) (fun s => posOf P s.r) p
      (EncRd.DeadSt P C InvI) :=
  ⟨EncRd.isSoundPartial P C hC.tagLen p e hF hU hlenE, EncRd.isDead P C hC.tagLen p e hF hU hlenE⟩

/-- `new` + `initialize` over the altered stream: it fails (chunk 0 altered), or the reader starts
    in a good state at position 0 -/
theorem enc_init (inner : ι) (hin : InvI inner) (r : EncR ι) (q : Nat)
    (h : EncR.init P C inner = (r, .ok q)) :
    EncRd.SInv P C p InvI absI ⟨r⟩ ∧ posOf P r = 0 :=
  EncR.init_partial P C hC.tagLen p e hF hU hlenE inner hin r q h

/-- the state a failed `read` leaves behind (kept by `C03.step`) is dead -/
theorem enc_read_error_dead (s : EncRd P C ι) (hs : EncRd.SInv P C p InvI absI s) (n : Nat)
    (er : Err) (h : (EncR.readFull P C s.r n).2 = .error er) :
    EncRd.DeadSt P C InvI ⟨(EncR.readFull P C s.r n).1⟩ :=
  EncR.read_error_dead P C hC.tagLen p e hF hU hlenE s hs n _ er (Prod.ext rfl h)

end

/-! ### the archive FILE: `hdr ++ e`, opened through `Cur → RawR → EncRd` -/

/-- the raw layer pinned after the header, over an in-memory cursor over `hdr ++ e`, is a sound
    partial reader of `e` (it never fails, except for seek targets beyond 2^64) -/
theorem raw_source (hdr e : Bytes) :
    IsSoundPartial (σ := RawR Cur)
      (fun r => r.inner.data = hdr ++ e ∧ r.off = hdr.length ∧ hdr.length ≤ r.inner.pos)
      (fun r => r.inner.pos - r.off) e := by
  have h := RawR.isSoundPartial (hdr ++ e) hdr.length (by simp) (Cur.isSoundPartial (hdr ++ e))
  rw [List.drop_left] at h
  exact h

section
variable (P : Params) (H : Bytes → Bytes) (utf8 : Bytes → Bool) (ops : List MlaModel.Op)
  (C : EncPrims) (K : Codec) (rd : Nat → Nat) (hC : C11.EncPrims.Laws P C)
  (hH : ∀ b, (H b).length = hashLen) (hwf : ∀ op ∈ ops, op.WF utf8)
  (hacc : AllAccepted P H ops) (hfin : ops.getLast? = some .finalize)
  (hlen : ops.length < U64) (hpos : (Writer.run P H ops).2.2.length < U64)
  (hfoot : (encFooter (Writer.run P H ops).1.names (Writer.run P H ops).1.info).length - 4 < U32)
include hC hH hwf hacc hfin hlen hpos hfoot

/-- **C03.archive_tamper_sound** — an encryption-only archive whose sealed body was altered in any
    way that keeps its length (`e` in place of `sealS P C S`, `Unforged`), any header bytes in front,
    opened as `ArchiveReader::from_config` does (`openArchive … .enc`: in-memory cursor, raw layer,
    encryption reader, footer): opening FAILS, or the index is the genuine one and for EVERY history
    every answer is an error or exactly what `specOf ops` determines. -/
theorem archive_tamper_sound (hdr e : Bytes) (hU : Unforged P C (Writer.run P H ops).2.2 e)
    (hlenE : e.length = (sealS P C (Writer.run P H ops).2.2).length)
    (a₀ : ArS (ReaderStackT P C K rd .enc))
    (hopen : openArchive P C K rd utf8 .enc hdr.length (hdr ++ e) = .ok a₀) :
    a₀.ix = (Writer.run P H ops).1.index ∧ a₀.handle = none ∧
    (∀ h : List ROp, ∃ q', RunSound (specOf ops) H none h (ArS.run P utf8 a₀ h).2 q') ∧
    (∀ (h : List ROp) name content, (name, content) ∈ specOf ops → ∀ ns : List Nat,
      ∃ o os, (ArS.run P utf8 a₀ (h ++ .getFile name :: ns.map .read)).2 =
          (ArS.run P utf8 a₀ h).2 ++ o :: os ∧
        (o = .opened content.length ∨ ∃ er, o = .err er) ∧ dataOf os <+: content ∧
        ∀ o' ∈ os, (∃ b, o' = .data b) ∨ (∃ er, o' = .err er) ∨ o' = .noHandle) := by
  have hraw := raw_source hdr e
  obtain ⟨hSP, hDead⟩ := enc_source P C hC _ e hraw hU hlenE
  cases hinit : EncR.init P C (rawAfterHeader (hdr ++ e) hdr.length) with
  | mk r res =>
    cases res with
    | error er => simp [openArchive, openStack, hinit] at hopen
    | ok q0 =>
      have hinv := (enc_init P C hC _ e hraw hU hlenE (rawAfterHeader (hdr ++ e) hdr.length)
        ⟨rfl, rfl, Nat.le_refl _⟩ r q0 hinit).1
      cases hpf : parseFooterS utf8 (⟨r⟩ : ReaderStackT P C K rd .enc) with
      | mk s' res2 =>
        cases res2 with
        | error er => simp [openArchive, openStack, hinit, hpf] at hopen
        | ok ix =>
          have ha : a₀ = ⟨s', ix, none⟩ := by
            simp only [openArchive, openStack, hinit, hpf, Except.ok.injEq] at hopen
            exact hopen.symm
          subst ha
          have hix : ix = (Writer.run P H ops).1.index :=
            (open_sound P H utf8 ops hH hwf hacc hfin hlen hpos
              (σ := ReaderStackT P C K rd .enc) _ _ _ hSP hDead hfoot ⟨r⟩ (.inl hinv) s' ix hpf).1
          have hpfs := C01.archive P H utf8 ops hH hwf hacc hfin hlen hpos hfoot
          have hs' := (parseFooterS_sound (σ := ReaderStackT P C K rd .enc) hSP hDead utf8 ⟨r⟩
            (.inl hinv) _ hpfs s' ix hpf).2
          refine ⟨hix, rfl, ?_, ?_⟩
          · intro h
            exact history_sound P H utf8 ops hH hwf hacc hfin hlen hpos
              (σ := ReaderStackT P C K rd .enc) _ _ _ hSP hDead ⟨s', ix, none⟩ hs' hix rfl h
          · intro h name content hm ns
            exact open_read_sound P H utf8 ops hH hwf hacc hfin hlen hpos
              (σ := ReaderStackT P C K rd .enc) _ _ _ hSP hDead ⟨s', ix, none⟩ hs' hix rfl h
              name content hm ns

end

/-! ### compression under encryption: `hdr ++ e`, opened through `Cur → RawR → EncRd → CompRd` -/

section
variable (P : Params) (H : Bytes → Bytes) (utf8 : Bytes → Bool) (ops : List MlaModel.Op)
  (C : EncPrims) (K : Codec) (rd : Nat → Nat) (hC : C11.EncPrims.Laws P C) (hK : K.Laws)
  (hrd : ∀ m, 0 < m → 0 < rd m ∧ rd m ≤ m) (hrd0 : rd 0 = 0)
  (hH : ∀ b, (H b).length = hashLen) (hwf : ∀ op ∈ ops, op.WF utf8)
  (hacc : AllAccepted P H ops) (hfin : ops.getLast? = some .finalize)
  (hlen : ops.length < U64) (hpos : (Writer.run P H ops).2.2.length < U64)
  (hfoot : (encFooter (Writer.run P H ops).1.names (Writer.run P H ops).1.info).length - 4 < U32)
  (cs : List Bytes)
  (hcs : CompFS.IsEncoded P K (Writer.run P H ops).2.2 cs)  -- `cs`: the compressed blocks of `S`
  (hfit : CompFits P cs)                                    -- the table fields fit their widths
include hC hK hrd hrd0 hH hwf hacc hfin hlen hpos hfoot hcs hfit

/-- **C03.archive_tamper_sound_compEnc** — the same for a compress+encrypt archive: the sealed
    body `sealS P C (compBody P S cs)` replaced by any `Unforged` `e` of the same length.  The
    compression reader sits on the encryption reader, which returns only genuine bytes of the
    compressed stream or fails (`CompRd.isSoundPartial` over `enc_source`). -/
theorem archive_tamper_sound_compEnc (hdr e : Bytes)
    (hU : Unforged P C (compBody P (Writer.run P H ops).2.2 cs) e)
    (hlenE : e.length = (sealS P C (compBody P (Writer.run P H ops).2.2 cs)).length)
    (a₀ : ArS (ReaderStackT P C K rd .compEnc))
    (hopen : openArchive P C K rd utf8 .compEnc hdr.length (hdr ++ e) = .ok a₀) :
    a₀.ix = (Writer.run P H ops).1.index ∧ a₀.handle = none ∧
    (∀ h : List ROp, ∃ q', RunSound (specOf ops) H none h (ArS.run P utf8 a₀ h).2 q') ∧
    (∀ (h : List ROp) name content, (name, content) ∈ specOf ops → ∀ ns : List Nat,
      ∃ o os, (ArS.run P utf8 a₀ (h ++ .getFile name :: ns.map .read)).2 =
          (ArS.run P utf8 a₀ h).2 ++ o :: os ∧
        (o = .opened content.length ∨ ∃ er, o = .err er) ∧ dataOf os <+: content ∧
        ∀ o' ∈ os, (∃ b, o' = .data b) ∨ (∃ er, o' = .err er) ∨ o' = .noHandle) := by
  have hraw := raw_source hdr e
  obtain ⟨hSP, hDead⟩ := enc_source P C hC _ e hraw hU hlenE
  have hcomp := isCompressed_of_encoded hK.decFinish hcs
  have hCP := CompRd.isSoundPartial P K rd hrd hrd0 _ cs _ hcomp hSP hDead
  have hCD := CompRd.isDead (ι := EncRd P C (RawR Cur)) P K rd (Writer.run P H ops).2.2 cs
    (compBody P (Writer.run P H ops).2.2 cs)
    (InvI := EncRd.SInv P C (compBody P (Writer.run P H ops).2.2 cs)
      (fun r => r.inner.data = hdr ++ e ∧ r.off = hdr.length ∧ hdr.length ≤ r.inner.pos)
      (fun r => r.inner.pos - r.off))
    (DeadI := EncRd.DeadSt P C
      (fun r => r.inner.data = hdr ++ e ∧ r.off = hdr.length ∧ hdr.length ≤ r.inner.pos))
    (absI := fun s => posOf P s.r)
  cases hinit : EncR.init P C (rawAfterHeader (hdr ++ e) hdr.length) with
  | mk r res =>
    cases res with
    | error er => simp [openArchive, openStack, hinit] at hopen
    | ok q0 =>
      have hinv := (enc_init P C hC _ e hraw hU hlenE (rawAfterHeader (hdr ++ e) hdr.length)
        ⟨rfl, rfl, Nat.le_refl _⟩ r q0 hinit).1
      cases hci : CompR.init (⟨r⟩ : EncRd P C (RawR Cur)) with
      | error er => simp [openArchive, openStack, hinit, hci] at hopen
      | ok r' =>
        have hinv' := (CompR.init_partial P K rd _ cs _ hcomp hSP hDead hfit ⟨r⟩ (.inl hinv) r' hci).1
        cases hpf : parseFooterS utf8 (⟨r'⟩ : ReaderStackT P C K rd .compEnc) with
        | mk s' res2 =>
          cases res2 with
          | error er => simp [openArchive, openStack, hinit, hci, hpf] at hopen
          | ok ix =>
            have ha : a₀ = ⟨s', ix, none⟩ := by
              simp only [openArchive, openStack, hinit, hci, hpf, Except.ok.injEq] at hopen
              exact hopen.symm
            subst ha
            have hpfs := C01.archive P H utf8 ops hH hwf hacc hfin hlen hpos hfoot
            obtain ⟨hix, hs'⟩ := parseFooterS_sound (σ := ReaderStackT P C K rd .compEnc) hCP hCD
              utf8 ⟨r'⟩ (.inl hinv') _ hpfs s' ix hpf
            refine ⟨hix, rfl, ?_, ?_⟩
            · intro h
              exact history_sound P H utf8 ops hH hwf hacc hfin hlen hpos
                (σ := ReaderStackT P C K rd .compEnc) _ _ _ hCP hCD ⟨s', ix, none⟩ hs' hix rfl h
            · intro h name content hm ns
              exact open_read_sound P H utf8 ops hH hwf hacc hfin hlen hpos
                (σ := ReaderStackT P C K rd .compEnc) _ _ _ hCP hCD ⟨s', ix, none⟩ hs' hix rfl h
                name content hm ns

end

/-! ### Non-vacuity

1. The altered stream `exBad` of `Theorems/C03.lean` (one ciphertext bit of chunk 1 flipped) meets the
   hypotheses of `enc_source`; the truncated stream `exGood.take 40` (D14) does not, and the
   conclusion fails for it (an empty read before the end of the plaintext): the length hypothesis is
   needed.
2. A one-file archive (`a` ↦ `[1, 2, 7]`, 133 bytes of blocks, 34 chunks of 4 bytes), sealed with the
   toy primitives `exC`, three header bytes in front; one ciphertext bit of chunk 8 (resp. 9)
   flipped.  The hypotheses of `archive_tamper_sound` hold (kernel-checked), and the kernel evaluates
   histories through `Cur → RawR → EncRd` in which an error answer is followed by sound answers. -/

section Example

theorem exBad_len : exBad.length = (sealS exP exC exPlain).length := by decide

/-- `enc_source` applies to the altered stream held by an in-memory cursor -/
example : IsSoundPartial (σ := EncRd exP exC Cur)
    (EncRd.SInv exP exC exPlain (fun c => c.data = exBad) (·.pos)) (fun s => posOf exP s.r) exPlain :=
  (enc_source exP exC exLaws exPlain exBad (Cur.isSoundPartial exBad) exUnforged exBad_len).1

/-- … and the initial state `st0` is a good one -/
example : EncRd.SInv exP exC exPlain (fun c => c.data = exBad) (·.pos) ⟨st0⟩ :=
  (enc_init exP exC exLaws exPlain exBad (Cur.isSoundPartial exBad) exUnforged exBad_len
    ⟨exBad, 0⟩ rfl st0 0 (Prod.ext rfl (by decide))).1

/-- the genuine stream cut after two chunk slots is `Unforged` (`truncated_unforged`) but shorter … -/
example : (exGood.take 40).length ≠ (sealS exP exC exPlain).length := by decide
/-- … and over it the reader, positioned at 8 < 9 = |exPlain|, answers an EMPTY read (end of
    stream): `IsSoundPartial.read_sound` fails without the length hypothesis (D14) -/
example :
    let s8 := (EncR.seekFull exP exC (EncR.init exP exC (⟨exGood.take 40, 0⟩ : Cur)).1 (.start 8)).1
    posOf exP s8 = 8 ∧ (EncR.readFull exP exC s8 4).2 = .ok [] ∧ exPlain.length = 9 := by decide

/-- a one-file archive -/
def exArcOps : List MlaModel.Op := [.add [97] 3 [1, 2, 7], .finalize]
/-- its block stream (133 bytes) -/
def exArcS : Bytes := (Writer.run exP C01.exH exArcOps).2.2
/-- sealed: 34 slots of 20 bytes (the last one 17) -/
def exArcGood : Bytes := sealS exP exC exArcS
/-- slot 8 (plaintext 32‥35: end of the `FileContent` header, first content byte) altered -/
def exArcBad8 : Bytes := exArcGood.set 161 (exArcGood.getD 161 0 ^^^ 1)
/-- slot 9 (plaintext 36‥39: the rest of the content, start of the `EndOfFile` block) altered -/
def exArcBad9 : Bytes := exArcGood.set 181 (exArcGood.getD 181 0 ^^^ 1)

def exArcOut (body : Bytes) (h : List ROp) : List ROut :=
  match openArchive exP exC Codec.stored id (fun _ => true) .enc 3 ([1, 2, 3] ++ body) with
  | .ok a => (ArS.run exP (fun _ => true) a h).2
  | .error e => [.err e]

def exArcHist : List ROp :=
  [.list, .getFile [97], .read 2, .read 100, .getHash [97], .getSize [97], .getFile [97], .read 1]

set_option maxRecDepth 1000000 in
/-- the genuine archive -/
example : exArcOut exArcGood exArcHist =
    [.names [[97]], .opened 3, .data [1], .data [2, 7], .hash ([1, 2, 7] ++ List.replicate 29 0),
     .size 3, .opened 3, .data [1]] := by decide +kernel

set_option maxRecDepth 1000000 in
/-- slot 8 altered: the reads of `a` answer the tag error; the hash (its block lies in unaltered
    slots) is then answered correctly: an error followed by sound answers -/
example : exArcOut exArcBad8 exArcHist =
    [.names [[97]], .opened 3, .err .wrongTag, .err .wrongTag,
     .hash ([1, 2, 7] ++ List.replicate 29 0), .size 3, .opened 3, .err .wrongTag] := by
  decide +kernel

set_option maxRecDepth 1000000 in
/-- slot 9 altered: the first content byte is delivered, then the tag error; `get_hash` errs too;
    re-opening delivers the first byte again -/
example : exArcOut exArcBad9 exArcHist =
    [.names [[97]], .opened 3, .data [1], .err .wrongTag, .err .wrongTag, .size 3, .opened 3,
     .data [1]] := by decide +kernel

set_option maxRecDepth 1000000 in
/-- an altered footer slot: opening fails -/
example : exArcOut (exArcGood.set 601 0) [.list] = [.err .wrongTag] := by decide +kernel

set_option maxRecDepth 1000000 in
theorem exArc_accepted : AllAccepted exP C01.exH exArcOps := by unfold AllAccepted; decide +kernel
theorem exArc_wf : ∀ op ∈ exArcOps, op.WF (fun _ => true) := by simp [exArcOps, Op.WF, U64]
set_option maxRecDepth 1000000 in
theorem exArc_pos : (Writer.run exP C01.exH exArcOps).2.2.length < U64 := by decide +kernel
set_option maxRecDepth 1000000 in
theorem exArc_foot : (encFooter (Writer.run exP C01.exH exArcOps).1.names
    (Writer.run exP C01.exH exArcOps).1.info).length - 4 < U32 := by decide +kernel

set_option maxRecDepth 1000000 in
theorem exArcUnforged8 : Unforged exP exC exArcS exArcBad8 := by
  apply unforged_of_check
  decide +kernel

set_option maxRecDepth 1000000 in
theorem exArcBad8_len : exArcBad8.length = (sealS exP exC exArcS).length := by decide +kernel

/-- `archive_tamper_sound` applies to the altered example archive: every hypothesis is met, and the
    reader it is about exists (opening succeeds) -/
example : ∃ a₀ : ArS (ReaderStackT exP exC Codec.stored id .enc),
    openArchive exP exC Codec.stored id (fun _ => true) .enc 3 ([1, 2, 3] ++ exArcBad8) = .ok a₀ ∧
    ∀ h : List ROp, ∃ q', RunSound (specOf exArcOps) C01.exH none h
      (ArS.run exP (fun _ => true) a₀ h).2 q' := by
  cases hopen : openArchive exP exC Codec.stored id (fun _ => true) .enc 3 ([1, 2, 3] ++ exArcBad8) with
  | error er =>
    exfalso
    have : exArcOut exArcBad8 [] = [] := by decide +kernel
    simp only [exArcOut, hopen] at this
    cases this
  | ok a₀ =>
    exact ⟨a₀, rfl, (archive_tamper_sound exP C01.exH (fun _ => true) exArcOps exC Codec.stored id
      exLaws C01.exH_len exArc_wf exArc_accepted (by decide) (by decide) exArc_pos exArc_foot
      [1, 2, 3] exArcBad8 exArcUnforged8 exArcBad8_len a₀ hopen).2.2.1⟩

/-! the situation after a failed call in Rust: the encryption reader left `failed` by a seek into the
    altered slot 8, under a handle in a made-up state (`InFile(2)`, `current_offset = 3`) -/

def exDeadR : EncR (RawR Cur) :=
  (EncR.seekFull exP exC (EncR.init exP exC (rawAfterHeader ([1, 2, 3] ++ exArcBad8) 3)).1 (.start 32)).1
def exDeadA : ArS (EncRd exP exC (RawR Cur)) :=
  ⟨⟨exDeadR⟩, (Writer.run exP C01.exH exArcOps).1.index, some (.inFile 2, 0, 3, [0])⟩

set_option maxRecDepth 1000000 in
theorem exDeadR_dead : EncRd.DeadSt exP exC
    (fun r : RawR Cur => r.inner.data = [1, 2, 3] ++ exArcBad8 ∧ r.off = 3 ∧ 3 ≤ r.inner.pos)
    ⟨exDeadR⟩ := by
  refine ⟨⟨?_, ?_, ?_⟩, ?_⟩ <;> decide +kernel

set_option maxRecDepth 1000000 in
/-- the reads of the stale handle err; `get_hash` repositions the stream and answers correctly -/
example : (ArS.run exP (fun _ => true) exDeadA
      [.read 5, .read 1, .getHash [97], .read 1, .getFile [97], .read 1]).2 =
    [.err .wrongTag, .err .wrongTag, .hash ([1, 2, 7] ++ List.replicate 29 0), .noHandle, .opened 3,
     .err .wrongTag] := by decide +kernel

/-- `dead_handle_sound` applies to it -/
example (q : C10.HSpec) (h : List ROp) : ∃ q', RunSound (specOf exArcOps) C01.exH q h
    (ArS.run exP (fun _ => true) exDeadA h).2 q' := by
  have hraw := raw_source [1, 2, 3] exArcBad8
  obtain ⟨hSP, hD⟩ := enc_source exP exC exLaws exArcS exArcBad8 hraw exArcUnforged8 exArcBad8_len
  exact dead_handle_sound exP C01.exH (fun _ => true) exArcOps C01.exH_len exArc_wf exArc_accepted
    (by decide) (by decide) exArc_pos _ _ _ hSP hD ⟨exDeadR⟩ exDeadR_dead (.inFile 2) 0 3 [0]
    (by simp) q h

/-! compression under encryption: the same ops through the real writer stack (stored-only codec,
    blocks of 8 bytes; 288 bytes of compressed stream, 1440 bytes sealed), slot 1 altered -/

def exCE : StackCfg := ⟨some 5, true⟩
def exCEInner : Bytes := Stack.inner exP C01.exH Codec.stored exCE Cut.whole exArcOps
def exCEDest : Bytes := (Stack.run exP C01.exH exC Codec.stored exCE Cut.whole Cut.whole exArcOps).dest
def exCEBad : Bytes := exCEDest.set 21 (exCEDest.getD 21 0 ^^^ 1)

def exCEOut (body : Bytes) (h : List ROp) : List ROut :=
  match openArchive exP exC Codec.stored id (fun _ => true) .compEnc 3 ([1, 2, 3] ++ body) with
  | .ok a => (ArS.run exP (fun _ => true) a h).2
  | .error e => [.err e]

set_option maxRecDepth 1000000 in
/-- evaluated by the kernel through `Cur → RawR → EncRd → CompRd`: opening `a` fails (its first
    compressed block lies in the altered slot), the hash and the size are then answered correctly -/
example : exCEOut exCEBad [.getFile [97], .read 2, .getHash [97]] =
    [.err .wrongTag, .noHandle, .hash ([1, 2, 7] ++ List.replicate 29 0)] := by
  decide +kernel

set_option maxRecDepth 1000000 in
theorem exCEInner_len : exCEInner.length = 288 := by decide +kernel
set_option maxRecDepth 1000000 in
theorem exCEUnforged : Unforged exP exC exCEInner exCEBad := by
  apply unforged_of_check
  decide +kernel
set_option maxRecDepth 1000000 in
theorem exCEBad_len : exCEBad.length = (sealS exP exC exCEInner).length := by decide +kernel

/-- `archive_tamper_sound_compEnc` applies to it -/
example : ∃ a₀ : ArS (ReaderStackT exP exC Codec.stored id .compEnc),
    openArchive exP exC Codec.stored id (fun _ => true) .compEnc 3 ([1, 2, 3] ++ exCEBad) = .ok a₀ ∧
    ∀ h : List ROp, ∃ q', RunSound (specOf exArcOps) C01.exH none h
      (ArS.run exP (fun _ => true) a₀ h).2 q' := by
  obtain ⟨cs, hcs, _, _⟩ := C01.stack_body_inner exP C01.exH exC Codec.stored exCE Cut.whole Cut.whole
    exArcOps exArc_accepted (by decide)
  obtain ⟨henc, hin⟩ := hcs rfl
  have hin' : compBody exP (Writer.run exP C01.exH exArcOps).2.2 cs = exCEInner := hin.symm
  cases hopen : openArchive exP exC Codec.stored id (fun _ => true) .compEnc 3 ([1, 2, 3] ++ exCEBad) with
  | error er =>
    exfalso
    have : exCEOut exCEBad [] = [] := by decide +kernel
    simp only [exCEOut, hopen] at this
    cases this
  | ok a₀ =>
    refine ⟨a₀, rfl, (archive_tamper_sound_compEnc exP C01.exH (fun _ => true) exArcOps exC
      Codec.stored id exLaws Codec.stored_laws (fun m hm => ⟨hm, Nat.le_refl _⟩) rfl C01.exH_len
      exArc_wf exArc_accepted (by decide) (by decide) exArc_pos exArc_foot cs henc
      (C01.compFits_of_length exP _ cs (by rw [hin', exCEInner_len]; decide) (by decide))
      [1, 2, 3] exCEBad (by rw [hin']; exact exCEUnforged) (by rw [hin']; exact exCEBad_len)
      a₀ hopen).2.2.1⟩

end Example

end MlaModel.C03

/-
  C09 over the whole writer stack — a refused call changes nothing that reaches the destination.

  `Stack.run P H C K cfg cutTop cutComp ops` (MlaModel/Stack.lean) is the pipeline
  ArchiveWriter ─► [Compression] ─► [Encryption] ─► destination; `keepAccepted` (Theorems/C09.lean)
  removes the calls answered with a pre-write refusal.

    * `stack_erase_gen`        : general form.  Bytes at the destination, finalize flag: the same for
                                 `ops` and for `ops` with refused calls erased; results: the same with
                                 refusals filtered out.  Cuts below the compression layer and cuts
                                 without compression are arbitrary and may differ on the two sides.
                                 With compression the *top* cut matters (the codec sees each
                                 `write_all` separately), so the `j`-th kept call has to be cut on the
                                 erased side as it was in `ops` (`origIdx`); no hypothesis on the codec
                                 is needed: the model's compression writer ignores zero-length writes
                                 (`CW.writeAll … [] = (w, [])`, as `write_all(&[])` in Rust never calls
                                 `write`).
    * `stack_refused_noop`     : the same with the re-indexed cut `cutTop.reindex (origIdx …)`.
    * `stack_refused_noop_plain`  : `cfg.compress = none`, any four cuts.
    * `stack_refused_noop_uniform`: a top cut that does not depend on the call number (e.g.
                                 `Cut.whole`), same cut on both sides, any configuration.
    * `stack_refused_call`     : `pre ++ op :: post` vs `pre ++ post` when `op` is refused after `pre`.
-/
import MlaModel.Proofs.C09Stack
import MlaModel.Theorems.C01Stack
namespace MlaModel.C09
open MlaModel

/-- cut call `j` as `cut` cuts call `g j` -/
def _root_.MlaModel.Cut.reindex (cut : Cut) (g : Nat → Nat) : Cut :=
  ⟨fun j b => cut.f (g j) b, fun j b => cut.flat (g j) b⟩

section
variable (P : Params) (H : Bytes → Bytes)

/-- **C09.stack_erase_gen** -/
theorem stack_erase_gen (C : EncPrims) (K : Codec) (cfg : StackCfg)
    (cutTop cutTop' cutComp cutComp' : Cut) (ops : List Op)
    (hc : cfg.compress.isSome = true →
      ∀ j b, cutTop'.f j b = cutTop.f (origIdx P H WState.init ops j) b) :
    (Stack.run P H C K cfg cutTop' cutComp' (keepAccepted P H WState.init ops)).dest =
      (Stack.run P H C K cfg cutTop cutComp ops).dest ∧
    (Stack.run P H C K cfg cutTop' cutComp' (keepAccepted P H WState.init ops)).fin =
      (Stack.run P H C K cfg cutTop cutComp ops).fin ∧
    (Stack.run P H C K cfg cutTop' cutComp' (keepAccepted P H WState.init ops)).results =
      (Stack.run P H C K cfg cutTop cutComp ops).results.filter (fun r => !decide (Refusal r)) := by
  obtain ⟨he1, he2, he3⟩ := erase P H WState.init ops
  have hfin : (Stack.lowActs P H K cfg cutTop' cutComp' (keepAccepted P H WState.init ops)).2 =
      (Stack.lowActs P H K cfg cutTop cutComp ops).2 := by
    rw [C07.lowActs_fin, C07.lowActs_fin]; simp only [Writer.run]; rw [he1]
  have hin : Stack.inner P H K cfg cutTop' (keepAccepted P H WState.init ops) =
      Stack.inner P H K cfg cutTop ops := by
    obtain ⟨lvl, enc⟩ := cfg
    cases lvl with
    | none => rw [C07.inner_plain, C07.inner_plain]; simp only [Writer.run]; rw [he2]
    | some l =>
      obtain ⟨h1, h2⟩ := topActs_strip P H cutTop cutTop' ops 0 0 WState.init
        (by intro j b; simpa using hc rfl j b)
      simp only [Stack.inner]
      rw [compRun_strip P K l (Stack.topActs P H cutTop 0 WState.init ops).1,
        compRun_strip P K l (Stack.topActs P H cutTop' 0 WState.init (keepAccepted P H WState.init ops)).1,
        h1, h2]
  have hw : LAct.written (Stack.lowActs P H K cfg cutTop' cutComp' (keepAccepted P H WState.init ops)).1 =
      LAct.written (Stack.lowActs P H K cfg cutTop cutComp ops).1 := by
    rw [C07.lowActs_written, C07.lowActs_written, hin]
  refine ⟨?_, hfin, he3⟩
  show (if cfg.encrypt then Stack.encSink P C _ _ else LAct.written _) =
    (if cfg.encrypt then Stack.encSink P C _ _ else LAct.written _)
  cases cfg.encrypt with
  | false => simpa using hw
  | true =>
    simp only [if_true]
    rw [hfin]
    exact encSink_congr P C _ _ _ hw

/-- **C09.stack_refused_noop** — every configuration, every cipher, every codec (no law assumed),
    every cut: erasing the refused calls changes neither the bytes that reach the destination nor
    the finalize flag; the results are those of the kept calls.  On the erased side the `j`-th kept
    call is cut as it was in `ops`; the cut below the compression layer is arbitrary on both sides. -/
theorem stack_refused_noop (C : EncPrims) (K : Codec) (cfg : StackCfg)
    (cutTop cutComp cutComp' : Cut) (ops : List Op) :
    let o := Stack.run P H C K cfg cutTop cutComp ops
    let o' := Stack.run P H C K cfg (cutTop.reindex (origIdx P H WState.init ops)) cutComp'
      (keepAccepted P H WState.init ops)
    o'.dest = o.dest ∧ o'.fin = o.fin ∧
      o'.results = o.results.filter (fun r => !decide (Refusal r)) :=
  stack_erase_gen P H C K cfg cutTop _ cutComp cutComp' ops (fun _ _ _ => rfl)

/-- without compression: any cuts on both sides -/
theorem stack_refused_noop_plain (C : EncPrims) (K : Codec) (enc : Bool)
    (cutTop cutTop' cutComp cutComp' : Cut) (ops : List Op) :
    let o := Stack.run P H C K ⟨none, enc⟩ cutTop cutComp ops
    let o' := Stack.run P H C K ⟨none, enc⟩ cutTop' cutComp' (keepAccepted P H WState.init ops)
    o'.dest = o.dest ∧ o'.fin = o.fin ∧
      o'.results = o.results.filter (fun r => !decide (Refusal r)) :=
  stack_erase_gen P H C K ⟨none, enc⟩ cutTop cutTop' cutComp cutComp' ops (fun h => by simp at h)

/-- a top cut that does not look at the call number (one `write_all` per emission, fixed piece
    sizes, …): the same cut on both sides, any configuration -/
theorem stack_refused_noop_uniform (C : EncPrims) (K : Codec) (cfg : StackCfg)
    (cutTop cutComp cutComp' : Cut) (hu : ∀ i j, cutTop.f i = cutTop.f j) (ops : List Op) :
    let o := Stack.run P H C K cfg cutTop cutComp ops
    let o' := Stack.run P H C K cfg cutTop cutComp' (keepAccepted P H WState.init ops)
    o'.dest = o.dest ∧ o'.fin = o.fin ∧
      o'.results = o.results.filter (fun r => !decide (Refusal r)) :=
  stack_erase_gen P H C K cfg cutTop cutTop cutComp cutComp' ops (fun _ j b => by rw [hu j])

/-! ### one refused call -/

theorem keepAccepted_append (s : WState) (pre post : List Op) :
    keepAccepted P H s (pre ++ post) =
      keepAccepted P H s pre ++ keepAccepted P H (Writer.runFrom P H s pre).1 post := by
  induction pre generalizing s with
  | nil => simp [keepAccepted, Writer.runFrom]
  | cons op pre ih =>
    rw [List.cons_append, runFrom_cons]
    by_cases h : Refusal (Writer.step P H s op).2.1
    · obtain ⟨h1, _⟩ := refused_noop P H s op h
      simp only [keepAccepted, h, if_true]
      rw [ih s, h1]
    · simp only [keepAccepted, h, if_false, List.cons_append]
      rw [ih]

/-- the two op lists have the same accepted calls -/
theorem keepAccepted_drop_refused (pre post : List Op) (op : Op)
    (h : Refusal (Writer.step P H (Writer.run P H pre).1 op).2.1) :
    keepAccepted P H WState.init (pre ++ op :: post) = keepAccepted P H WState.init (pre ++ post) := by
  rw [keepAccepted_append, keepAccepted_append]
  congr 1
  have h' : Refusal (Writer.step P H (Writer.runFrom P H WState.init pre).1 op).2.1 := h
  simp [keepAccepted, h']

/-- **C09.stack_refused_call** — a refused call changes nothing that reaches the destination:
    if `op`, issued after `pre`, is answered with a pre-write refusal, the stack sends the same bytes
    to the destination (and is finalized or not alike) with and without that call — without
    compression for any cuts, in general for a top cut that does not depend on the call number. -/
theorem stack_refused_call (C : EncPrims) (K : Codec) (cfg : StackCfg)
    (cutTop cutTop' cutComp cutComp' : Cut) (pre post : List Op) (op : Op)
    (hcut : cfg.compress = none ∨ (cutTop' = cutTop ∧ ∀ i j, cutTop.f i = cutTop.f j))
    (h : Refusal (Writer.step P H (Writer.run P H pre).1 op).2.1) :
    (Stack.run P H C K cfg cutTop cutComp (pre ++ op :: post)).dest =
      (Stack.run P H C K cfg cutTop' cutComp' (pre ++ post)).dest ∧
    (Stack.run P H C K cfg cutTop cutComp (pre ++ op :: post)).fin =
      (Stack.run P H C K cfg cutTop' cutComp' (pre ++ post)).fin := by
  have hk := keepAccepted_drop_refused P H pre post op h
  have hc : ∀ (c c' : Cut) (l : List Op), (c' = cutTop ∨ c' = cutTop') → (c = cutTop ∨ c = cutTop') →
      cfg.compress.isSome = true → ∀ j b, c'.f j b = c.f (origIdx P H WState.init l j) b := by
    intro c c' l h1 h2 hs j b
    rcases hcut with hn | ⟨rfl, hu⟩
    · rw [hn] at hs; simp at hs
    · have e1 : c' = cutTop' := by rcases h1 with h | h <;> exact h
      have e2 : c = cutTop' := by rcases h2 with h | h <;> exact h
      rw [e1, e2, hu j]
  obtain ⟨a1, a2, _⟩ := stack_erase_gen P H C K cfg cutTop cutTop cutComp cutComp (pre ++ op :: post)
    (hc _ _ _ (.inl rfl) (.inl rfl))
  obtain ⟨b1, b2, _⟩ := stack_erase_gen P H C K cfg cutTop' cutTop cutComp' cutComp (pre ++ post)
    (hc _ _ _ (.inl rfl) (.inr rfl))
  rw [hk] at a1 a2
  exact ⟨by rw [← a1, b1], by rw [← a2, b2]⟩

end

/-! ### Non-vacuity: ENCRYPT (and COMPRESS) on, an op list with three refused calls -/

/-- `append` to an id never opened, a duplicate `start`, a `finalize` with a file open: refused -/
def exRefOps : List Op :=
  [.append 7 2 [1, 2], .start [97], .start [97], .append 0 3 [1, 2, 7], .finalize, .end_ 0,
   .flush, .finalize, .start [98]]

example : (Writer.run EncFS.Pt C01.exH exRefOps).2.1 =
    [.err .state, .id 0, .err .dupName, .ok, .err .state, .ok, .ok, .ok, .err .state] := by
  decide +kernel

example : keepAccepted EncFS.Pt C01.exH WState.init exRefOps =
    [.start [97], .append 0 3 [1, 2, 7], .end_ 0, .flush, .finalize] := by decide +kernel

example : (List.range 5).map (origIdx EncFS.Pt C01.exH WState.init exRefOps) = [1, 3, 5, 6, 7] := by
  decide +kernel

/-- a top cut that depends on the call number -/
def exCut : Cut := Cut.bySizes fun i => [i, 2]

/-- the two sides of `stack_refused_noop`, evaluated (compression + encryption) -/
example :
    (Stack.run EncFS.Pt C01.exH EncFS.Ct Codec.stored ⟨some 5, true⟩ exCut Cut.whole exRefOps).dest =
    (Stack.run EncFS.Pt C01.exH EncFS.Ct Codec.stored ⟨some 5, true⟩
      (exCut.reindex (origIdx EncFS.Pt C01.exH WState.init exRefOps)) (Cut.bySizes fun _ => [1])
      (keepAccepted EncFS.Pt C01.exH WState.init exRefOps)).dest := by decide +kernel

example : (Stack.run EncFS.Pt C01.exH EncFS.Ct Codec.stored ⟨some 5, true⟩ exCut Cut.whole exRefOps).fin = true ∧
    0 < (Stack.run EncFS.Pt C01.exH EncFS.Ct Codec.stored ⟨some 5, true⟩ exCut Cut.whole exRefOps).dest.length := by
  decide +kernel

/-- encryption only, different cuts on the two sides -/
example :
    (Stack.run EncFS.Pt C01.exH EncFS.Ct Codec.stored ⟨none, true⟩ exCut Cut.whole exRefOps).dest =
    (Stack.run EncFS.Pt C01.exH EncFS.Ct Codec.stored ⟨none, true⟩ Cut.whole exCut
      (keepAccepted EncFS.Pt C01.exH WState.init exRefOps)).dest := by decide +kernel

/-- `stack_refused_call` on the duplicate `start`: the hypothesis holds … -/
example : Refusal (Writer.step EncFS.Pt C01.exH
    (Writer.run EncFS.Pt C01.exH [.append 7 2 [1, 2], .start [97]]).1 (.start [97])).2.1 := by decide +kernel

/-- … and the conclusion, evaluated -/
example :
    (Stack.run EncFS.Pt C01.exH EncFS.Ct Codec.stored ⟨some 5, true⟩ Cut.whole Cut.whole
      ([.append 7 2 [1, 2], .start [97]] ++ .start [97] :: [.append 0 3 [1, 2, 7], .end_ 0, .finalize])).dest =
    (Stack.run EncFS.Pt C01.exH EncFS.Ct Codec.stored ⟨some 5, true⟩ Cut.whole Cut.whole
      ([.append 7 2 [1, 2], .start [97]] ++ [.append 0 3 [1, 2, 7], .end_ 0, .finalize])).dest := by
  decide +kernel

/-- the re-indexing is needed with compression when the cut depends on the call number: the same
    cut on both sides gives different bytes (the stored codec frames each `write_all` separately) -/
example :
    (Stack.run EncFS.Pt C01.exH EncFS.Ct Codec.stored ⟨some 5, false⟩ exCut Cut.whole exRefOps).dest ≠
    (Stack.run EncFS.Pt C01.exH EncFS.Ct Codec.stored ⟨some 5, false⟩ exCut Cut.whole
      (keepAccepted EncFS.Pt C01.exH WState.init exRefOps)).dest := by decide +kernel

end MlaModel.C09

#print axioms MlaModel.C09.stack_erase_gen
#print axioms MlaModel.C09.stack_refused_noop
#print axioms MlaModel.C09.stack_refused_noop_plain
#print axioms MlaModel.C09.stack_refused_noop_uniform
#print axioms MlaModel.C09.stack_refused_call

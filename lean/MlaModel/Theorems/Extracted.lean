/-
  The constants of format v1 as READ FROM THE RUST SOURCE on every run (tools/extract_consts.py
  regenerates MlaModel/Extracted.lean) equal the ones the model and FORMAT.md use.  A change of a
  size constant, a block-type byte, the magic, a layer bit or a key-derivation label in /repo breaks
  this theorem at build time, before any test input is run.
-/
import MlaModel.Extracted
import MlaModel.Blocks
namespace MlaModel.C06
open MlaModel

theorem extracted_is_format_v1 :
    Extracted.chunk = some Params.prod.chunk ∧ Extracted.tagLen = some Params.prod.tagLen ∧
    Extracted.cbuf = some Params.prod.cbuf ∧ Extracted.block = some Params.prod.block ∧
    Extracted.fsbuf = some Params.prod.fsbuf ∧ Extracted.rcache = some Params.prod.rcache ∧
    Extracted.nameMax = some Params.prod.nameMax ∧
    Extracted.formatVersion = some 1 ∧ Extracted.magic = some "MLA" ∧
    Extracted.tStart = some tStart.toNat ∧ Extracted.tContent = some tContent.toNat ∧
    Extracted.tEoad = some tEoad.toNat ∧ Extracted.tEof = some tEof.toNat ∧
    Extracted.layerEncrypt = some 1 ∧ Extracted.layerCompress = some 2 ∧
    Extracted.keySize = some 32 ∧ Extracted.nonceSize = some 8 ∧ Extracted.nonceAes = some 12 ∧
    Extracted.kdInfo = some "KEY DERIVATION" ∧ Extracted.eciesNonce = some "ECIES NONCE0" ∧
    Extracted.pathDerivation = some "PATH DERIVATION" ∧ Extracted.brotliWindow = some 22 := by
  decide

end MlaModel.C06

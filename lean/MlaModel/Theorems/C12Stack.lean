/-
  C12 through the layer stack — linear extraction (`linear_extract`, helpers.rs) reading from the
  real reader stack instead of from a byte string.

  `LinearS.run P utf8 fuel s chosen` (MlaModel/LinearS.lean) is `linear_extract` over ANY stream `s`
  (rewind, then the block loop; `fuel` bounds the number of blocks, any value larger than the length
  of the block stream is adequate).  `Proofs/LinearS` shows that over a stream that behaves like a
  cursor over `data` (`IsCursor`) it answers what `Linear.run` answers on `data`.  Combined with C12
  (`eq`, `eq_mem`, `trunc`) and with `C01.stack_cursor` (the initialised stack raw → decrypt →
  decompress over an archive file is cursor-like over the block stream):

    * `linear_over_stack`  : over any cursor-like stack over the block stream of an accepted,
        finalized op list, from ANY good state of the stack (any position, any caches: the rewind is
        an absolute seek), extraction returns exactly `chosen` without duplicates, each name with the
        content `specOf ops` gives it: chosen files get their content, chosen names that are not in
        the archive get `[]`, names that were not chosen get nothing.
    * `open_cursor`, `open_cursor_file` : opening the archive file through the reader stack
        succeeds, the stack is cursor-like, and it is in a good state after ANY history of
        list / get_file / read / get_hash / get_size operations.
    * `linear_file`        : the same as `linear_over_stack` for the archive FILE
        `hdr ++ (Stack.run … ops).dest` written by the real writer stack (any layer configuration,
        any cut, any header) and opened through the real reader stack (any short-read schedule `rd`
        of the decompressor), after any history of random-access operations.
    * `linear_trunc_stack` : over a cursor-like stream whose data is the block stream cut before the
        end-of-archive marker, extraction never succeeds: `UnexpectedEof` (or out of fuel, when the
        fuel given is not larger than the cut).
-/
import MlaModel.Theorems.C12
import MlaModel.Theorems.C01Stack
import MlaModel.Proofs.LinearS
namespace MlaModel.C12
open MlaModel

/-! ### over any cursor-like stack -/

section
variable (P : Params) (H : Bytes → Bytes) (utf8 : Bytes → Bool) (ops : List Op)
  (hH : ∀ b, (H b).length = hashLen)         -- the hash has 32 bytes
  (hwf : ∀ op ∈ ops, op.WF utf8)             -- names valid UTF-8, sizes < 2^64
  (hacc : AllAccepted P H ops)               -- every call accepted
  (hfin : ops.getLast? = some .finalize)     -- ends with finalize
  (hlen : ops.length < U64)                  -- fewer than 2^64 calls
  (hpos : (Writer.run P H ops).2.2.length < U64) -- the stream is shorter than 2^64 bytes
include hH hwf hacc hfin hlen hpos

/-- **C12.linear_over_stack** — `linear_extract` over any stack `σ` that behaves like a cursor over
    the block stream, started in any good state `s` of the stack, with any fuel larger than the
    length of the block stream: it succeeds, leaves the stack in a good state, and returns `m` =
    the chosen names (without duplicates, in order), each with the content the spec gives it —
    chosen files get their content, chosen names not in the archive get `[]`, nothing is delivered
    for names that were not chosen. -/
theorem linear_over_stack {σ : Type} [Stream σ] (Inv : σ → Prop) (abs : σ → Nat)
    (hI : IsCursor Inv abs (Writer.run P H ops).2.2) (s : σ) (hs : Inv s)
    (fuel : Nat) (hfuel : (Writer.run P H ops).2.2.length < fuel) (chosen : List Bytes) :
    ∃ s' m, LinearS.run P utf8 fuel s chosen = .ok (s', m) ∧ Inv s' ∧
      m = (chosen.eraseDups.map fun n => (n, ((specOf ops).lookup n).getD [])) ∧
      (∀ name ∈ chosen,
        (∀ content, (name, content) ∈ specOf ops → (name, content) ∈ m) ∧
        ((∀ content, (name, content) ∉ specOf ops) → (name, []) ∈ m)) ∧
      (∀ e ∈ m, e.1 ∈ chosen) ∧
      m.map (·.1) = chosen.eraseDups := by
  have h := LinearS.run_sim hI P utf8 fuel hfuel s hs chosen
  have he := eq P H utf8 ops hH hwf hacc hfin hlen hpos chosen
  obtain ⟨m, hm, h1, h2, h3⟩ := eq_mem P H utf8 ops hH hwf hacc hfin hlen hpos chosen
  rw [hm] at h he
  obtain ⟨s', hr, hs'⟩ := h
  exact ⟨s', m, hr, hs', Except.ok.inj he, h1, h2, h3⟩

/-- **C12.linear_trunc_stack** — extraction over a stack that delivers only the block stream cut
    before the end-of-archive marker (`body.take k`, `k ≤ |body|`: cut inside a header, inside a
    payload, at a block boundary, or just before the marker) never succeeds: it answers
    `UnexpectedEof` — whatever the state the stack was in, whatever names were chosen.  (With a fuel
    not larger than `k` the model may instead run out of fuel; it still does not succeed.) -/
theorem linear_trunc_stack (body : Bytes)
    (hbody : (Writer.run P H ops).2.2 =
      body ++ tEoad :: encFooter (Writer.run P H ops).1.names (Writer.run P H ops).1.info)
    (k : Nat) (hk : k ≤ body.length)
    {σ : Type} [Stream σ] (Inv : σ → Prop) (abs : σ → Nat)
    (hI : IsCursor Inv abs (body.take k)) (s : σ) (hs : Inv s) (fuel : Nat) (chosen : List Bytes) :
    (k < fuel → LinearS.run P utf8 fuel s chosen = .error .eof) ∧
    (LinearS.run P utf8 fuel s chosen = .error .eof ∨
      LinearS.run P utf8 fuel s chosen = .error (.panic "linear-fuel")) ∧
    ∀ r, LinearS.run P utf8 fuel s chosen ≠ .ok r := by
  have ht := trunc' P H utf8 ops hH hwf hacc hfin hlen hpos chosen body hbody k hk
  have hany : LinearS.run P utf8 fuel s chosen = .error .eof ∨
      LinearS.run P utf8 fuel s chosen = .error (.panic "linear-fuel") := by
    rcases LinearS.run_any_fuel hI P utf8 fuel s hs chosen with h | h
    · left
      rw [ht] at h
      cases hr : LinearS.run P utf8 fuel s chosen with
      | error e => rw [hr] at h; cases h; rfl
      | ok r => rw [hr] at h; cases h
    · exact Or.inr h
  refine ⟨?_, hany, ?_⟩
  · intro hf
    have h := LinearS.run_sim hI P utf8 fuel (by simp only [List.length_take]; omega) s hs chosen
    rw [ht] at h
    exact h
  · intro r hr
    rcases hany with h | h <;> rw [h] at hr <;> cases hr

end

/-! ### opening the archive file: the stack is cursor-like and stays in a good state -/

section
variable (P : Params) (H : Bytes → Bytes) (utf8 : Bytes → Bool) (ops : List Op)
  (C : EncPrims) (K : Codec) (rd : Nat → Nat)
  (hC : C11.EncPrims.Laws P C) (hK : K.Laws)
  (hrd : ∀ m, 0 < m → 0 < rd m ∧ rd m ≤ m) (hrd0 : rd 0 = 0)
  (hH : ∀ b, (H b).length = hashLen) (hwf : ∀ op ∈ ops, op.WF utf8)
  (hacc : AllAccepted P H ops) (hfin : ops.getLast? = some .finalize)
  (hlen : ops.length < U64) (hpos : (Writer.run P H ops).2.2.length < U64)
  (hfoot : (encFooter (Writer.run P H ops).1.names (Writer.run P H ops).1.info).length - 4 < U32)
include hC hK hrd hrd0 hH hwf hacc hfin hlen hpos hfoot

/-- opening `hdr ++ sealedBody …` through the reader stack (`openArchive`: the layers, then the
    footer) succeeds; the stack behaves like a cursor over the block stream; and after ANY history
    of random-access operations the stack is in a good state. -/
theorem open_cursor (cfg : LayerCfg) (cs : List Bytes) (hdr : Bytes)
    (hchunks : cfg.encrypted = true →
      (encPlain P cfg (Writer.run P H ops).2.2 cs).length / P.chunk + 1 < U32)
    (hcs : cfg.compressed = true → CompFS.IsEncoded P K (Writer.run P H ops).2.2 cs)
    (hfit : cfg.compressed = true → CompFits P cs)
    (hfile : (hdr ++ sealedBody P C cfg (Writer.run P H ops).2.2 cs).length < U64) :
    ∃ (Inv : ReaderStackT P C K rd cfg → Prop) (abs : ReaderStackT P C K rd cfg → Nat)
      (a₀ : ArS (ReaderStackT P C K rd cfg)),
      openArchive P C K rd utf8 cfg hdr.length
        (hdr ++ sealedBody P C cfg (Writer.run P H ops).2.2 cs) = .ok a₀ ∧
      a₀.ix = (Writer.run P H ops).1.index ∧ a₀.handle = none ∧
      IsCursor Inv abs (Writer.run P H ops).2.2 ∧
      ∀ h : List ROp, Inv (ArS.run P utf8 a₀ h).1.src := by
  obtain ⟨Inv, abs, s, hopen, hcur, hs⟩ :=
    C01.stack_cursor P H ops C K rd hC hK hrd hrd0 cfg cs hdr hchunks hcs hfit hfile
  have hpf := C01.archive P H utf8 ops hH hwf hacc hfin hlen hpos hfoot
  obtain ⟨s', hfs, hs'⟩ := parseFooterS_ok hcur utf8 s hs _ hpf
  refine ⟨Inv, abs, ⟨s', (Writer.run P H ops).1.index, none⟩, ?_, rfl, rfl, hcur, ?_⟩
  · simp only [openArchive, hopen, hfs]
  · intro h
    obtain ⟨tail, nb, hA⟩ := C10.arch_of_run P H utf8 ops hH hwf hacc hfin hlen hpos
    obtain ⟨q', _, ha⟩ := C10.run_matches hcur hA h none
      (⟨s', (Writer.run P H ops).1.index, none⟩ : ArS (ReaderStackT P C K rd cfg)) ⟨hs', rfl, rfl⟩
    exact ha.1

/-- the same over the bytes the real writer stack produced (hypotheses of
    `C01.archive_roundtrip_file`) -/
theorem open_cursor_file (scfg : StackCfg) (cutTop cutComp : Cut) (hdr : Bytes)
    (hchunks : scfg.encrypt = true →
      (Stack.inner P H K scfg cutTop ops).length / P.chunk + 1 < U32)
    (hsmall : scfg.compress.isSome = true →
      (Stack.inner P H K scfg cutTop ops).length < U32 ∧ P.block < U32)
    (hfile : (hdr ++ (Stack.run P H C K scfg cutTop cutComp ops).dest).length < U64) :
    ∃ (Inv : ReaderStackT P C K rd (LayerCfg.ofStack scfg) → Prop)
      (abs : ReaderStackT P C K rd (LayerCfg.ofStack scfg) → Nat)
      (a₀ : ArS (ReaderStackT P C K rd (LayerCfg.ofStack scfg))),
      openArchive P C K rd utf8 (LayerCfg.ofStack scfg) hdr.length
        (hdr ++ (Stack.run P H C K scfg cutTop cutComp ops).dest) = .ok a₀ ∧
      a₀.ix = (Writer.run P H ops).1.index ∧ a₀.handle = none ∧
      IsCursor Inv abs (Writer.run P H ops).2.2 ∧
      ∀ h : List ROp, Inv (ArS.run P utf8 a₀ h).1.src := by
  obtain ⟨cs, hcs, hdest, hinner⟩ := C01.stack_body_inner P H C K scfg cutTop cutComp ops hacc hfin
  rw [hdest] at hfile ⊢
  have henc : (LayerCfg.ofStack scfg).encrypted = true → scfg.encrypt = true := by
    obtain ⟨lvl, enc⟩ := scfg
    cases lvl <;> cases enc <;> simp [LayerCfg.ofStack, LayerCfg.encrypted]
  have hcmp : (LayerCfg.ofStack scfg).compressed = true → scfg.compress.isSome = true := by
    obtain ⟨lvl, enc⟩ := scfg
    cases lvl <;> cases enc <;> simp [LayerCfg.ofStack, LayerCfg.compressed]
  apply open_cursor P H utf8 ops C K rd hC hK hrd hrd0 hH hwf hacc hfin hlen hpos hfoot
    (LayerCfg.ofStack scfg) cs hdr
  · intro he
    rw [← hinner (henc he)]
    exact hchunks (henc he)
  · exact fun hc => (hcs hc).1
  · intro hc
    obtain ⟨h1, h2⟩ := hsmall (hcmp hc)
    rw [(hcs hc).2] at h1
    exact C01.compFits_of_length P _ cs h1 h2
  · exact hfile

/-- **C12.linear_file** — write `ops` with the real writer stack (any configuration `scfg`: no
    layer / encryption / compression / both; any cut of the layers' output), put any header in
    front, open the file through the real reader stack (any short-read schedule `rd`), run any
    history `h` of list / get_file / read / get_hash / get_size, then `linear_extract` any chosen
    names: it succeeds and delivers exactly what `specOf ops` says (as in `linear_over_stack`).
    `hchunks`, `hsmall`, `hfile`, `hfoot`: as in `C01.archive_roundtrip_file`. -/
theorem linear_file (scfg : StackCfg) (cutTop cutComp : Cut) (hdr : Bytes)
    (hchunks : scfg.encrypt = true →
      (Stack.inner P H K scfg cutTop ops).length / P.chunk + 1 < U32)
    (hsmall : scfg.compress.isSome = true →
      (Stack.inner P H K scfg cutTop ops).length < U32 ∧ P.block < U32)
    (hfile : (hdr ++ (Stack.run P H C K scfg cutTop cutComp ops).dest).length < U64) :
    ∃ a₀ : ArS (ReaderStackT P C K rd (LayerCfg.ofStack scfg)),
      openArchive P C K rd utf8 (LayerCfg.ofStack scfg) hdr.length
        (hdr ++ (Stack.run P H C K scfg cutTop cutComp ops).dest) = .ok a₀ ∧
      ∀ (h : List ROp) (fuel : Nat), (Writer.run P H ops).2.2.length < fuel →
      ∀ chosen : List Bytes,
        ∃ s' m, LinearS.run P utf8 fuel (ArS.run P utf8 a₀ h).1.src chosen = .ok (s', m) ∧
          m = (chosen.eraseDups.map fun n => (n, ((specOf ops).lookup n).getD [])) ∧
          (∀ name ∈ chosen,
            (∀ content, (name, content) ∈ specOf ops → (name, content) ∈ m) ∧
            ((∀ content, (name, content) ∉ specOf ops) → (name, []) ∈ m)) ∧
          (∀ e ∈ m, e.1 ∈ chosen) ∧
          m.map (·.1) = chosen.eraseDups := by
  obtain ⟨Inv, abs, a₀, hopen, _, _, hcur, hinv⟩ :=
    open_cursor_file P H utf8 ops C K rd hC hK hrd hrd0 hH hwf hacc hfin hlen hpos hfoot scfg cutTop
      cutComp hdr hchunks hsmall hfile
  refine ⟨a₀, hopen, ?_⟩
  intro h fuel hfuel chosen
  obtain ⟨s', m, hr, _, hm⟩ :=
    linear_over_stack P H utf8 ops hH hwf hacc hfin hlen hpos Inv abs hcur _ (hinv h) fuel hfuel chosen
  exact ⟨s', m, hr, hm⟩

end

/-! ### Non-vacuity: the example of C01/C12 (two interleaved files `a`, `b` and an added file `c`) -/

section examples
open C01

/-- `linear_over_stack` applies: an in-memory cursor left at position 5, choosing `a`, an unknown
    name, `c`, and `a` again -/
example : ∃ s', LinearS.run Params.prod (fun _ => true) 428 (⟨C10.exData, 5⟩ : Cur)
      [[97], [120], [99], [97]] = .ok (s', [([97], [1, 2, 7]), ([120], []), ([99], [5, 6])]) := by
  obtain ⟨s', m, hr, _, hm, _⟩ :=
    linear_over_stack Params.prod exH (fun _ => true) exOps exH_len exOps_wf exOps_accepted
      exOps_last exOps_len exOps_pos _ _ (Cur.isCursor C10.exData) (⟨C10.exData, 5⟩ : Cur)
      C10.exA0_inv 428 (by rw [exOps_len427]; decide) [[97], [120], [99], [97]]
  have hv : m = [([97], [1, 2, 7]), ([120], []), ([99], [5, 6])] := by rw [hm]; decide
  exact ⟨s', hv ▸ hr⟩

set_option maxRecDepth 8192 in
/-- the same, run by the kernel (the cursor ends right after the end-of-archive marker, byte 252 of 427) -/
example : LinearS.run Params.prod (fun _ => true) 428 (⟨C10.exData, 5⟩ : Cur)
      [[97], [120], [99], [97]] =
    .ok (⟨C10.exData, 252⟩, [([97], [1, 2, 7]), ([120], []), ([99], [5, 6])]) := by
  rfl

set_option maxRecDepth 8192 in
/-- why `hfuel` is there: the fuel bounds the number of blocks the model's loop may read (the Rust
    loop is unbounded); the example stream has 10 blocks before the marker, so fuel 10 is too little
    and fuel 11 suffices (`hfuel` asks for more than the stream length, which is always enough) -/
example :
    LinearS.run Params.prod (fun _ => true) 10 (⟨C10.exData, 5⟩ : Cur) [[97]] =
      .error (.panic "linear-fuel") ∧
    LinearS.run Params.prod (fun _ => true) 11 (⟨C10.exData, 5⟩ : Cur) [[97]] =
      .ok (⟨C10.exData, 252⟩, [([97], [1, 2, 7])]) := ⟨rfl, rfl⟩

set_option maxRecDepth 8192 in
/-- through the stream that returns ONE byte per read (`C10.Slow`), left at position 200: the same
    files (theorem and kernel) -/
example : (LinearS.run Params.prod (fun _ => true) 428 (⟨C10.exData, 200⟩ : C10.Slow)
      [[97], [120], [99], [97]]).map (·.2) =
    .ok [([97], [1, 2, 7]), ([120], []), ([99], [5, 6])] := by
  rfl

example : ∃ s', LinearS.run Params.prod (fun _ => true) 1000 (⟨C10.exData, 200⟩ : C10.Slow)
      [[98]] = .ok (s', [([98], [9])]) := by
  obtain ⟨s', m, hr, _, hm, _⟩ :=
    linear_over_stack Params.prod exH (fun _ => true) exOps exH_len exOps_wf exOps_accepted
      exOps_last exOps_len exOps_pos _ _ (C10.Slow.isCursor C10.exData) (⟨C10.exData, 200⟩ : C10.Slow)
      C10.exS0_inv 1000 (by rw [exOps_len427]; decide) [[98]]
  have hv : m = [([98], [9])] := by rw [hm]; decide
  exact ⟨s', hv ▸ hr⟩

set_option maxRecDepth 8192 in
/-- the footer of the example has 175 bytes (so the block part before the marker has 251) -/
theorem exOps_footer_len : (encFooter (Writer.run Params.prod exH exOps).1.names
    (Writer.run Params.prod exH exOps).1.info).length = 175 := by decide

/-- `linear_trunc_stack` applies: a cursor over the example stream cut at 40 (inside a header), 54
    (inside a payload), 55 (block boundary) bytes -/
example (k : Nat) (hk : k = 40 ∨ k = 54 ∨ k = 55) (pos : Nat) (hp : pos ≤ k) :
    LinearS.run Params.prod (fun _ => true) 428
      (⟨(Writer.run Params.prod exH exOps).2.2.take k, pos⟩ : Cur) [[97]] = .error .eof := by
  obtain ⟨body, hbody, _⟩ := trunc Params.prod exH (fun _ => true) exOps exH_len exOps_wf
    exOps_accepted exOps_last exOps_len exOps_pos [[97]]
  have hl := congrArg List.length hbody
  rw [exOps_len427] at hl
  simp only [List.length_append, List.length_cons] at hl
  have hfl := exOps_footer_len
  have hkb : k ≤ body.length := by omega
  have htk : (Writer.run Params.prod exH exOps).2.2.take k = body.take k := by
    rw [hbody, List.take_append_of_le_length hkb]
  rw [htk]
  refine (linear_trunc_stack Params.prod exH (fun _ => true) exOps exH_len exOps_wf exOps_accepted
    exOps_last exOps_len exOps_pos body hbody k hkb _ _ (Cur.isCursor (body.take k))
    (⟨body.take k, pos⟩ : Cur) ⟨rfl, ?_⟩ 428 [[97]]).1 (by omega)
  simp only [List.length_take]; omega

set_option maxRecDepth 8192 in
/-- the same cuts, run by the kernel -/
example :
    LinearS.run Params.prod (fun _ => true) 428
      (⟨(Writer.run Params.prod exH exOps).2.2.take 40, 7⟩ : Cur) [[97]] = .error .eof ∧
    LinearS.run Params.prod (fun _ => true) 428
      (⟨(Writer.run Params.prod exH exOps).2.2.take 54, 7⟩ : Cur) [[97]] = .error .eof ∧
    LinearS.run Params.prod (fun _ => true) 428
      (⟨(Writer.run Params.prod exH exOps).2.2.take 55, 7⟩ : Cur) [[97]] = .error .eof :=
  ⟨rfl, rfl, rfl⟩

set_option maxRecDepth 1000000 in
theorem exPt_len : (Writer.run EncFS.Pt exH exOps).2.2.length < 1000 := by decide +kernel

/-- `linear_file` applies to `C01.exFile` (compression under encryption, chunk 4, blocks of 8 bytes,
    three header bytes): every hypothesis is met; after any history, extracting `a`, an unknown
    name and `c` gives their contents -/
example :
    ∃ a₀ : ArS (ReaderStackT EncFS.Pt EncFS.Ct Codec.stored id .compEnc),
      openArchive EncFS.Pt EncFS.Ct Codec.stored id (fun _ => true) .compEnc 3 exFile = .ok a₀ ∧
      ∀ h : List ROp, ∃ s',
        LinearS.run EncFS.Pt (fun _ => true) 1000 (ArS.run EncFS.Pt (fun _ => true) a₀ h).1.src
          [[97], [120], [99], [97]] = .ok (s', [([97], [1, 2, 7]), ([120], []), ([99], [5, 6])]) := by
  obtain ⟨a₀, h1, h2⟩ :=
    linear_file EncFS.Pt exH (fun _ => true) exOps EncFS.Ct Codec.stored id
      ⟨EncFS.hTagT⟩ Codec.stored_laws (fun m hm => ⟨hm, Nat.le_refl _⟩) rfl exH_len exOps_wf
      exPt_accepted exOps_last exOps_len exPt_pos exPt_foot exStackCfg Cut.whole Cut.whole [1, 2, 3]
      (fun _ => by rw [exPt_inner]; decide) (fun _ => ⟨by rw [exPt_inner]; decide, by decide⟩)
      exFile_len
  refine ⟨a₀, h1, fun h => ?_⟩
  obtain ⟨s', m, hr, hm, _⟩ := h2 h 1000 exPt_len [[97], [120], [99], [97]]
  have hv : m = [([97], [1, 2, 7]), ([120], []), ([99], [5, 6])] := by rw [hm]; decide
  exact ⟨s', hv ▸ hr⟩

/-- open the compression-only file `C01.exFileComp`, open `a` and read one byte of it, then extract
    `c`, `a` and an unknown name linearly — evaluated by the kernel through `Cur → RawR → CompRd` -/
def exLinCompOut : Option (List (Bytes × Bytes)) :=
  match openArchive EncFS.Pt EncFS.Ct Codec.stored id (fun _ => true) .comp 3 exFileComp with
  | .ok a =>
    match LinearS.run EncFS.Pt (fun _ => true) 1000
      (ArS.run EncFS.Pt (fun _ => true) a [.getFile [97], .read 1]).1.src [[99], [97], [120]] with
    | .ok (_, m) => some m
    | .error _ => none
  | .error _ => none

set_option maxRecDepth 1000000 in
example : exLinCompOut = some [([99], [5, 6]), ([97], [1, 2, 7]), ([120], [])] := by decide +kernel

/-- the one-file archive `C01.exFileSmall` through the full stack `Cur → RawR → EncRd → CompRd` -/
def exLinSmallOut : Option (List (Bytes × Bytes)) :=
  match openArchive EncFS.Pt EncFS.Ct Codec.stored id (fun _ => true) .compEnc 3 exFileSmall with
  | .ok a =>
    match LinearS.run EncFS.Pt (fun _ => true) 1000 a.src [[120], [97]] with
    | .ok (_, m) => some m
    | .error _ => none
  | .error _ => none

set_option maxRecDepth 1000000 in
example : exLinSmallOut = some [([120], []), ([97], [1, 2, 7])] := by decide +kernel

end examples

end MlaModel.C12

/-
  C01 — Round-trip fidelity of every finalized archive (block-stream level; the layer round trips
  are in Theorems/C01Layers once the layer models are in).  This file is extended as proofs land.
-/
import MlaModel.Proofs.Blocks
namespace MlaModel.C01
open MlaModel

/-- the codec of the typed block stream is a round trip on every well-formed block -/
theorem block_roundtrip (P : Params) (utf8 : Bytes → Bool) (b : Block) (rest : Bytes)
    (h : b.WF P utf8) : Block.decode P utf8 (b.encode ++ rest) = .ok (b, rest) :=
  Block.decode_encode P utf8 b rest h

theorem stream_roundtrip (P : Params) (utf8 : Bytes → Bool) (bs : List Block)
    (h : ∀ b ∈ bs, b.WF P utf8) :
    decodeAll P utf8 (bs.length + 1) (encodeAll bs) = (bs, none) :=
  decodeAll_encodeAll P utf8 bs h _ (Nat.lt_succ_self _)

example : (Block.content 3 [1, 2, 3]).WF Params.prod (fun _ => true) := by
  simp [Block.WF, U64]

end MlaModel.C01

/-
  C01 — round trip at the level of the typed block stream.

  For every op sequence all of whose calls are accepted and which ends with `finalize`, reading the
  emitted plaintext stream with the index the writer built gives back, for every started file, its
  name (in order), exactly the bytes appended to it (for every read-buffer size `n > 0`), their
  number, and the hash of those bytes.

  Hypotheses beyond "accepted": names are valid UTF-8 and sizes are u64 (`Op.WF`, the Rust API takes
  `&str` / `u64`); fewer than 2^64 calls (ids fit in a u64); the stream is shorter than 2^64 bytes
  (name lengths fit in a u64 even if `P.nameMax ≥ 2^64`); the hash function returns 32 bytes
  (`hH`) — without `hH` the statement is false, see the counterexample at the end of this file.

    * `blocks`    : list / get_file / size / get_hash over the index the writer built give the spec.
    * `archive`   : `parseFooter` of the emitted stream is exactly that index (needs the footer
                    length to fit its u32 field, `hfoot`).
    * `roundtrip` : both together — open the archive as the reader does, then read everything.
    * `setup`     : the shape of an accepted finalized run (invariant, stream = blocks ++ eoad ++
                    footer), shared with C12.
-/
import MlaModel.Spec
import MlaModel.Proofs.ReaderCorrect
import MlaModel.Proofs.WriterInv
import MlaModel.Proofs.Footer
namespace MlaModel.C01
open MlaModel

theorem encode_length_le_of_mem {b : Block} {bs : List Block} (h : b ∈ bs) :
    b.encode.length ≤ (encodeAll bs).length := by
  induction bs with
  | nil => simp at h
  | cons x xs ih =>
    rcases List.mem_cons.1 h with h | h
    · subst h; simp
    · have := ih h; simp; omega

/-- a block the writer produced is well formed for the reader once ids and lengths fit in a u64 -/
theorem wf_of_wf0 {P : Params} {utf8 : Bytes → Bool} {nid : Nat} {b : Block}
    (h : b.WF0 P utf8 nid) (hn : nid ≤ U64) (hl : b.encode.length < U64) :
    b.WF P utf8 ∧ b.NE := by
  have hel := Block.encode_length b
  cases b with
  | start id name =>
    simp only at hel
    exact ⟨⟨by have := h.1; omega, h.2.1, by omega, h.2.2⟩, trivial⟩
  | content id d => exact ⟨⟨by have := h.1; omega, h.2.2⟩, h.2.1⟩
  | eof id g => exact ⟨⟨by have := h.1; omega, h.2⟩, trivial⟩
  | eoad => exact absurd h (by simp [Block.WF0])

/-- the state in which the closing `finalize` was accepted -/
theorem finalize_accepted {s s1 : WState} {r : Res} {e : Bytes}
    (h : stepFinalize s = (s1, r, e)) (hr : r.isOk = true) :
    s.finalized = false ∧ s.opened = [] ∧ s1.index = s.index ∧ s1.names = s.names ∧
      s1.info = s.info ∧ e = Block.eoad.encode ++ encFooter s.names s.info := by
  unfold stepFinalize at h
  split at h
  · simp only [Prod.mk.injEq] at h; obtain ⟨_, rfl, _⟩ := h; simp [Res.isOk] at hr
  · rename_i hf
    split at h
    · simp only [Prod.mk.injEq] at h; obtain ⟨_, rfl, _⟩ := h; simp [Res.isOk] at hr
    · rename_i ho
      simp only [Prod.mk.injEq] at h
      obtain ⟨rfl, _, rfl⟩ := h
      refine ⟨by simpa using hf, by simpa using ho, rfl, rfl, rfl, rfl⟩

/-- What an accepted run that ends with `finalize` looks like: the state `s'` in which the closing
    `finalize` was issued satisfies the writer invariant for some block list `nb`, no file is open,
    the final index is that of `s'`, and the stream is `encodeAll nb ++ eoad ++ footer`. -/
theorem setup (P : Params) (H : Bytes → Bytes) (utf8 : Bytes → Bool) (ops : List Op)
    (hH : ∀ b, (H b).length = hashLen) (hwf : ∀ op ∈ ops, op.WF utf8)
    (hacc : AllAccepted P H ops) (hfin : ops.getLast? = some .finalize) :
    ∃ (s' : WState) (nb : List Block),
      Inv P H utf8 s' nb (ops.foldl SpecState.step {}) ∧ s'.opened = [] ∧
      (Writer.run P H ops).1.index = s'.index ∧ (Writer.run P H ops).1.names = s'.names ∧
      (Writer.run P H ops).1.info = s'.info ∧
      (Writer.run P H ops).2.2 =
        encodeAll nb ++ (Block.eoad.encode ++ encFooter s'.names s'.info) ∧
      s'.nextId < ops.length := by
  obtain ⟨ops', rfl⟩ := List.getLast?_eq_some_iff.1 hfin
  unfold AllAccepted at hacc
  unfold Writer.run at hacc ⊢
  rw [runFrom_append] at hacc ⊢
  simp only at hacc ⊢
  have hlast : Writer.runFrom P H (Writer.runFrom P H WState.init ops').1 [.finalize] =
      ((stepFinalize (Writer.runFrom P H WState.init ops').1).1,
       [(stepFinalize (Writer.runFrom P H WState.init ops').1).2.1],
       (stepFinalize (Writer.runFrom P H WState.init ops').1).2.2 ++ []) := by
    simp [Writer.runFrom, Writer.step]
  rw [hlast] at hacc ⊢
  simp only [List.append_nil] at hacc ⊢
  generalize hs' : (Writer.runFrom P H WState.init ops').1 = s' at *
  obtain ⟨hnf, hop, hidx, hnames, hinfo, he⟩ :=
    finalize_accepted (s := s') (s1 := (stepFinalize s').1)
      (r := (stepFinalize s').2.1) (e := (stepFinalize s').2.2) rfl (hacc _ (by simp))
  obtain ⟨nb, hnb, hinv⟩ := run_inv (P := P) (H := H) (utf8 := utf8) hH ops' WState.init [] {}
    (Inv.init P H utf8) (fun o ho => hwf o (by simp [ho])) (fun r hr => hacc r (by simp [hr]))
    (by rw [hs']; exact hnf)
  rw [hs'] at hinv
  simp only [List.nil_append] at hinv
  have hfold : (ops' ++ [Op.finalize]).foldl SpecState.step {} = ops'.foldl SpecState.step {} := by
    simp [List.foldl_append, SpecState.step]
  refine ⟨s', nb, by rw [hfold]; exact hinv, hop, hidx, hnames, hinfo, by rw [hnb, he], ?_⟩
  have := spec_next_le ops' {}
  rw [hinv.spn] at this
  have h0 : ({} : SpecState).next = 0 := rfl
  simp only [List.length_append, List.length_singleton]
  omega

/-- the blocks of such a run are well formed for the reader -/
theorem blocks_wf {P : Params} {H : Bytes → Bytes} {utf8 : Bytes → Bool} {s' : WState}
    {nb : List Block} {sp : SpecState} (hinv : Inv P H utf8 s' nb sp) (hnid : s'.nextId ≤ U64)
    (hl : (encodeAll nb).length < U64) : ∀ b ∈ nb, b.WF P utf8 ∧ b.NE := by
  intro b hb
  refine wf_of_wf0 (hinv.wf0 b hb) hnid ?_
  have := encode_length_le_of_mem hb
  omega

theorem specOf_eq {P : Params} {H : Bytes → Bytes} {utf8 : Bytes → Bool} {s' : WState}
    {nb : List Block} {ops : List Op} (hinv : Inv P H utf8 s' nb (ops.foldl SpecState.step {})) :
    specOf ops = s'.names.map (fun p => (p.1, contentOf p.2 nb)) := by
  simp [specOf, hinv.spf, List.map_map, Function.comp_def]

/-- **C01.blocks** — round trip at the level of the typed block stream, for every op sequence. -/
theorem blocks (P : Params) (H : Bytes → Bytes) (utf8 : Bytes → Bool) (ops : List Op)
    (hH : ∀ b, (H b).length = hashLen)         -- the hash has 32 bytes
    (hwf : ∀ op ∈ ops, op.WF utf8)             -- names valid UTF-8, sizes < 2^64
    (hacc : AllAccepted P H ops)               -- every call accepted
    (hfin : ops.getLast? = some .finalize)     -- ends with finalize
    (hlen : ops.length < U64)                  -- fewer than 2^64 calls (ids fit in u64)
    (hpos : (Writer.run P H ops).2.2.length < U64) -- the stream is shorter than 2^64 bytes
    :
    let st := (Writer.run P H ops).1
    let stream := (Writer.run P H ops).2.2
    Reader.listFiles st.index = (specOf ops).map (·.1) ∧
    ∀ name content, (name, content) ∈ specOf ops → ∀ n, 0 < n →
      Reader.getFile P utf8 stream st.index name n = .ok content ∧
      Reader.getSize st.index name = .ok content.length ∧
      Reader.getHash P utf8 stream st.index name = .ok (H content) := by
  obtain ⟨s', nb, hinv, hop, hidx, _, _, hstream, hnid⟩ := setup P H utf8 ops hH hwf hacc hfin
  have hspec := specOf_eq hinv
  have hindex : s'.index = s'.names.map
      (fun p => (p.1, (fun id => (alookup id s'.info).getD ⟨[], 0, 0⟩) p.2)) := rfl
  simp only
  rw [hstream] at hpos ⊢
  rw [hidx, hspec]
  generalize htail : Block.eoad.encode ++ encFooter s'.names s'.info = tail at *
  have hoks := blocks_wf hinv (by omega) (by simp only [List.length_append] at hpos; omega)
  refine ⟨?_, ?_⟩
  · simp [Reader.listFiles, hindex, List.map_map, Function.comp_def]
  · intro name content hmem n hn
    obtain ⟨p, hp, hpe⟩ := List.mem_map.1 hmem
    simp only [Prod.mk.injEq] at hpe
    obtain ⟨rfl, rfl⟩ := hpe
    obtain ⟨pname, id⟩ := p
    simp only
    obtain ⟨fi, hfi, hok⟩ := hinv.files pname id hp
    have hfind : Index.find s'.index pname = some fi := by
      refine (find_index s'.names (fun id => (alookup id s'.info).getD ⟨[], 0, 0⟩) pname).trans ?_
      rw [nameLookup_of_mem pname id s'.names hinv.nodup hp]
      simp [hfi]
    obtain ⟨pre, rest, hbs, hpre, _, hclosed⟩ := hok.tr
    obtain ⟨hot, p2, r2, hbs2, heof⟩ := hclosed (by rw [hop]; rfl)
    have hstart := (hoks (.start id pname) (by rw [hbs]; simp)).1
    have hrest : OKs P utf8 rest := fun b hb => hoks b (by rw [hbs]; simp [hb])
    refine ⟨?_, ?_, ?_⟩
    · have := getFile_blocks (P := P) (utf8 := utf8) (s := encodeAll nb ++ tail) (tail := tail)
        (i := id) hn pre pname rest s'.index pname fi hfind (by rw [hbs]) hstart hrest hot hpre
        (by rw [hok.offs, hbs])
      rw [this, hbs]
    · simp [Reader.getSize, hfind, hok.size]
    · have hmemE : ∀ g, nb = p2 ++ Block.eof id g :: r2 → Block.eof id g ∈ nb := by
        intro g hg; rw [hg]; simp
      have hsE : ∀ g, nb = p2 ++ Block.eof id g :: r2 →
          encodeAll nb ++ tail = encodeAll p2 ++ ((Block.eof id g).encode ++ (encodeAll r2 ++ tail)) := by
        intro g hg; rw [hg]; simp
      have hwfe := (hoks _ (hmemE _ hbs2)).1
      exact getHash_blocks (P := P) (utf8 := utf8) (i := id) p2 _ (encodeAll r2 ++ tail)
        s'.index pname fi hfind (hsE _ hbs2) hwfe heof

/-! ### the footer: the reader's own parse recovers the writer's index -/

theorem length_le_encodeAll (bs : List Block) : bs.length ≤ (encodeAll bs).length := by
  induction bs with
  | nil => simp
  | cons b bs ih => have := Block.encode_pos b; simp; omega

theorem runStartsB_length_le (i : Nat) (bs : List Block) (off : Nat) (prev : Bool) :
    (runStartsB i bs off prev).length ≤ bs.length := by
  induction bs generalizing off prev with
  | nil => simp [runStartsB]
  | cons b bs ih =>
    have := ih (off + b.encode.length) (b.mine i)
    simp only [runStartsB, List.length_append, List.length_cons]
    split <;> simp <;> omega

theorem runStartsB_mem_le (i : Nat) (bs : List Block) (off : Nat) (prev : Bool) (o : Nat)
    (h : o ∈ runStartsB i bs off prev) : o ≤ off + (encodeAll bs).length := by
  induction bs generalizing off prev with
  | nil => simp [runStartsB] at h
  | cons b bs ih =>
    simp only [runStartsB, List.mem_append] at h
    rcases h with h | h
    · split at h
      · simp only [List.mem_singleton] at h; omega
      · simp at h
    · have := ih _ _ h
      simp only [encodeAll_cons, List.length_append]; omega

/-- every number the footer stores fits in a u64 and every name is valid UTF-8 -/
theorem indexWF {P : Params} {H : Bytes → Bytes} {utf8 : Bytes → Bool} {s' : WState}
    {nb : List Block} {sp : SpecState} (hinv : Inv P H utf8 s' nb sp) (hop : s'.opened = [])
    (hnid : s'.nextId < U64) (hl : (encodeAll nb).length < U64) : IndexWF utf8 s'.index := by
  have hoks := blocks_wf hinv (by omega) hl
  refine ⟨?_, ?_⟩
  · have : s'.index.length = s'.nextId := by
      have := congrArg List.length hinv.ids
      simpa [WState.index] using this
    omega
  · intro e he
    obtain ⟨p, hp, rfl⟩ := List.mem_map.1 he
    obtain ⟨pname, id⟩ := p
    obtain ⟨fi, hfi, hok⟩ := hinv.files pname id hp
    obtain ⟨pre, rest, hbs, hpre, _, hclosed⟩ := hok.tr
    obtain ⟨hot, p2, r2, hbs2, heof⟩ := hclosed (by rw [hop]; rfl)
    have hstart := (hoks (.start id pname) (by rw [hbs]; simp)).1
    simp only [hfi, Option.getD_some]
    refine ⟨hstart.2.2.2, hstart.2.2.1, ?_, ?_, ?_, ?_⟩
    · rw [hok.offs]
      have := runStartsB_length_le id nb 0 false
      have := length_le_encodeAll nb
      omega
    · intro o ho
      rw [hok.offs] at ho
      have := runStartsB_mem_le id nb 0 false o ho
      omega
    · rw [hok.size]
      have := contentOf_length_le id nb
      omega
    · rw [heof]
      have : (encodeAll p2).length ≤ (encodeAll nb).length := by
        conv => rhs; rw [hbs2]
        simp
      omega

/-- **C01.archive** — the reader's own parse of the footer of the emitted stream gives exactly the
    index the writer built (the one `blocks` talks about).  `hfoot`: the footer length field is a
    u32. -/
theorem archive (P : Params) (H : Bytes → Bytes) (utf8 : Bytes → Bool) (ops : List Op)
    (hH : ∀ b, (H b).length = hashLen) (hwf : ∀ op ∈ ops, op.WF utf8)
    (hacc : AllAccepted P H ops) (hfin : ops.getLast? = some .finalize)
    (hlen : ops.length < U64) (hpos : (Writer.run P H ops).2.2.length < U64)
    (hfoot : (encFooter (Writer.run P H ops).1.names (Writer.run P H ops).1.info).length - 4 < U32) :
    parseFooter utf8 (Writer.run P H ops).2.2 = .ok (Writer.run P H ops).1.index := by
  obtain ⟨s', nb, hinv, hop, hidx, hnames, hinfo, hstream, hnid⟩ :=
    setup P H utf8 ops hH hwf hacc hfin
  rw [hnames, hinfo] at hfoot
  rw [hstream] at hpos ⊢
  rw [hidx]
  have hl : (encodeAll nb).length < U64 := by
    simp only [List.length_append] at hpos; omega
  have := parseFooter_index utf8 (encodeAll nb ++ Block.eoad.encode) s' hinv.nodup
    (indexWF hinv hop (by omega) hl) hfoot
  rw [List.append_assoc] at this
  exact this

/-- **C01.roundtrip** — write, then open the archive as the reader does (parse the footer of the
    stream), then list / read / size / hash: everything the spec says, for every buffer size. -/
theorem roundtrip (P : Params) (H : Bytes → Bytes) (utf8 : Bytes → Bool) (ops : List Op)
    (hH : ∀ b, (H b).length = hashLen) (hwf : ∀ op ∈ ops, op.WF utf8)
    (hacc : AllAccepted P H ops) (hfin : ops.getLast? = some .finalize)
    (hlen : ops.length < U64) (hpos : (Writer.run P H ops).2.2.length < U64)
    (hfoot : (encFooter (Writer.run P H ops).1.names (Writer.run P H ops).1.info).length - 4 < U32) :
    let stream := (Writer.run P H ops).2.2
    ∃ ix, parseFooter utf8 stream = .ok ix ∧
      Reader.listFiles ix = (specOf ops).map (·.1) ∧
      ∀ name content, (name, content) ∈ specOf ops → ∀ n, 0 < n →
        Reader.getFile P utf8 stream ix name n = .ok content ∧
        Reader.getSize ix name = .ok content.length ∧
        Reader.getHash P utf8 stream ix name = .ok (H content) :=
  ⟨_, archive P H utf8 ops hH hwf hacc hfin hlen hpos hfoot,
    blocks P H utf8 ops hH hwf hacc hfin hlen hpos⟩

/-! ### Non-vacuity: a concrete op list with two interleaved files (and an `add`) meets every
    hypothesis of `blocks`. -/

/-- a 32-byte "hash" -/
def exH : Bytes → Bytes := fun b => (b ++ List.replicate 32 0).take 32

def exOps : List Op :=
  [.start [97], .start [98], .append 0 2 [1, 2, 3], .append 1 1 [9], .append 0 1 [7],
   .add [99] 2 [5, 6], .append 1 0 [], .end_ 1, .flush, .end_ 0, .finalize]

theorem exH_len : ∀ b, (exH b).length = hashLen := by intro b; simp [exH, hashLen]
theorem exOps_wf : ∀ op ∈ exOps, op.WF (fun _ => true) := by simp [exOps, Op.WF, U64]
theorem exOps_accepted : AllAccepted Params.prod exH exOps := by unfold AllAccepted; decide
theorem exOps_last : exOps.getLast? = some .finalize := by decide
theorem exOps_len : exOps.length < U64 := by decide
set_option maxRecDepth 4096 in
theorem exOps_pos : (Writer.run Params.prod exH exOps).2.2.length < U64 := by decide

set_option maxRecDepth 4096 in
theorem exOps_foot : (encFooter (Writer.run Params.prod exH exOps).1.names
    (Writer.run Params.prod exH exOps).1.info).length - 4 < U32 := by decide

example : specOf exOps = [([97], [1, 2, 7]), ([98], [9]), ([99], [5, 6])] := by decide

/-- `archive` applies to the example -/
example : parseFooter (fun _ => true) (Writer.run Params.prod exH exOps).2.2 =
    .ok (Writer.run Params.prod exH exOps).1.index :=
  archive Params.prod exH (fun _ => true) exOps exH_len exOps_wf exOps_accepted exOps_last
    exOps_len exOps_pos exOps_foot

/-- the theorem applies to the example: the interleaved file `a` reads back as `[1, 2, 7]` with
    a 2-byte read buffer -/
example :
    Reader.getFile Params.prod (fun _ => true) (Writer.run Params.prod exH exOps).2.2
      (Writer.run Params.prod exH exOps).1.index [97] 2 = .ok [1, 2, 7] :=
  ((blocks Params.prod exH (fun _ => true) exOps exH_len exOps_wf exOps_accepted exOps_last
    exOps_len exOps_pos).2 [97] [1, 2, 7] (by decide) 2 (by decide)).1

/-! ### `hH` is necessary: with a hash function that does not return 32 bytes every call is
    accepted and the content reads back, but `get_hash` returns the 32 bytes that follow the id in
    the stream (here the end-of-archive marker and the beginning of the footer), not `H content`. -/

def cexH : Bytes → Bytes := fun _ => []
def cexOps : List Op := [.start [97], .append 0 2 [1, 2], .end_ 0, .finalize]

example : AllAccepted Params.prod cexH cexOps := by unfold AllAccepted; decide
set_option maxRecDepth 4096 in
example :
    Reader.getHash Params.prod (fun _ => true) (Writer.run Params.prod cexH cexOps).2.2
      (Writer.run Params.prod cexH cexOps).1.index [97] =
    .ok [254, 1, 0, 0, 0, 0, 0, 0, 0, 1, 0, 0, 0, 0, 0, 0, 0, 97, 1, 0, 0, 0, 0, 0, 0, 0,
         0, 0, 0, 0, 0, 0] := by
  rfl
example : cexH [1, 2] = [] := rfl

end MlaModel.C01

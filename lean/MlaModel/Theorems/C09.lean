/-
  C09 — Writer calls are validated, and a refused call changes nothing.

  Statements over `Writer.step` / `Writer.runFrom` (MlaModel/Writer.lean), for every `Params`, every
  hash function, every state and every op:
    * `refused_noop`  : a call answered with one of the pre-write refusals (duplicate name, over-long
                        name, unknown/ended id, anything after finalization, finalize with open files)
                        leaves the state unchanged and emits nothing.
    * `erase`         : running a sequence and running it with the refused calls removed end in the
                        same state with the same emitted bytes (and the same results for the kept calls).
    * `short_source`  : `append`/`add` from a source shorter than the announced size never answer `ok`.
    * `after_finalize`: once finalized, every call except `flush` is refused.
  "All accepted ⇒ readable" is C01 (`MlaModel.C01.blocks`).
-/
import MlaModel.Writer
namespace MlaModel.C09
open MlaModel

/-- the refusals that can be known before writing -/
def Refusal : Res → Prop
  | .err .state => True
  | .err .dupName => True
  | .err .nameTooLong => True
  | _ => False

instance : DecidablePred Refusal := fun r => by
  unfold Refusal; split <;> infer_instance

variable (P : Params) (H : Bytes → Bytes)

theorem start_refused (s : WState) (name : Bytes) :
    Refusal (stepStart P s name).2.1 → stepStart P s name = (s, (stepStart P s name).2.1, []) := by
  unfold stepStart
  split
  · intro _; rfl
  · split
    · intro _; rfl
    · split
      · intro _; rfl
      · intro h; simp [Refusal] at h

theorem append_refused (s : WState) (id size : Nat) (src : Bytes) :
    Refusal (stepAppend s id size src).2.1 →
      stepAppend s id size src = (s, (stepAppend s id size src).2.1, []) := by
  unfold stepAppend
  split
  · intro _; rfl
  · split
    · intro _; rfl
    · split
      · intro h; simp [Refusal] at h
      · intro h
        dsimp only at h
        split at h <;> simp [Refusal] at h

theorem end_refused (s : WState) (id : Nat) :
    Refusal (stepEnd H s id).2.1 → stepEnd H s id = (s, (stepEnd H s id).2.1, []) := by
  unfold stepEnd
  split
  · intro _; rfl
  · split
    · intro _; rfl
    · intro h; simp [Refusal] at h

theorem finalize_refused (s : WState) :
    Refusal (stepFinalize s).2.1 → stepFinalize s = (s, (stepFinalize s).2.1, []) := by
  unfold stepFinalize
  split
  · intro _; rfl
  · split
    · intro _; rfl
    · intro h; simp [Refusal] at h

/-- `add_file` is refused before writing only when its `start_file` part is. -/
theorem add_refused (s : WState) (name : Bytes) (size : Nat) (src : Bytes) :
    Refusal (stepAdd P H s name size src).2.1 →
      stepAdd P H s name size src = (s, (stepAdd P H s name size src).2.1, []) := by
  intro h
  unfold stepAdd at h ⊢
  -- case analysis on the start part
  have hs := start_refused P s name
  generalize hst : stepStart P s name = st at h hs ⊢
  obtain ⟨s1, r1, e1⟩ := st
  cases r1 with
  | ok =>
    have := hs (by
      -- `.ok` is never answered by `stepStart`
      exfalso
      unfold stepStart at hst
      split at hst
      · simp at hst
      · split at hst
        · simp at hst
        · split at hst <;> simp at hst)
    simpa using this
  | err e =>
    simp only at h ⊢
    have := hs h
    simpa using this
  | id i =>
    -- the start part succeeded: the file exists and is open, so the rest cannot be a pre-write refusal
    exfalso
    have hopen : s1.finalized = false ∧ (alookup i s1.opened).isSome := by
      unfold stepStart at hst
      split at hst
      · simp at hst
      · split at hst
        · simp at hst
        · split at hst
          · simp at hst
          · rename_i hfin _ _
            simp only [Prod.mk.injEq, Res.id.injEq] at hst
            obtain ⟨hs1, hi, _⟩ := hst
            subst hs1; subst hi
            refine ⟨by simpa using hfin, ?_⟩
            simp only
            generalize s.opened = l
            induction l with
            | nil => simp [alookup]
            | cons x xs ih =>
              obtain ⟨k, v⟩ := x
              simp only [List.cons_append, alookup]
              split <;> simp_all
    obtain ⟨hf, ho⟩ := hopen
    simp only at h
    -- append part
    have happ : ∀ r, (stepAppend s1 i size src).2.1 = r → ¬ Refusal r ∨ False := by
      intro r hr
      left
      unfold stepAppend at hr
      simp only [hf, Bool.false_eq_true, if_false] at hr
      cases ha : alookup i s1.opened with
      | none => simp [ha] at ho
      | some v =>
        simp only [ha] at hr
        split at hr
        · subst hr; simp [Refusal]
        · split at hr <;> (subst hr; simp [Refusal])
    generalize hap : stepAppend s1 i size src = ap at h happ
    obtain ⟨s2, r2, e2⟩ := ap
    cases r2 with
    | err e =>
      simp only at h
      rcases happ _ rfl with h' | h'
      · exact h' h
      · exact h'
    | ok =>
      simp only at h
      -- the file is still open in s2 and s2 is not finalized
      have hs2 : s2.finalized = false ∧ (alookup i s2.opened).isSome := by
        unfold stepAppend at hap
        simp only [hf, Bool.false_eq_true, if_false] at hap
        cases ha : alookup i s1.opened with
        | none => simp [ha] at ho
        | some v =>
          simp only [ha] at hap
          split at hap
          · simp only [Prod.mk.injEq] at hap
            obtain ⟨rfl, _, _⟩ := hap
            exact ⟨hf, by simp [ha]⟩
          · simp only [Prod.mk.injEq] at hap
            obtain ⟨rfl, _, _⟩ := hap
            refine ⟨?_, ?_⟩
            · simp only [WState.markContinuous]; split <;> simp [hf]
            · have : ∀ (l : List (Nat × Bytes)) (f : Bytes → Bytes),
                  (alookup i l).isSome → (alookup i (aupdate i f l)).isSome := by
                intro l f
                induction l with
                | nil => simp [alookup]
                | cons x xs ih =>
                  obtain ⟨k, v⟩ := x
                  simp only [alookup, aupdate]
                  split
                  · simp [alookup, *]
                  · intro h; simp [alookup, *]
              simp only
              apply this
              simp only [WState.markContinuous]; split <;> simp [ha]
      obtain ⟨hf2, ho2⟩ := hs2
      have hend : ¬ Refusal (stepEnd H s2 i).2.1 := by
        unfold stepEnd
        simp only [hf2, Bool.false_eq_true, if_false]
        cases ha : alookup i s2.opened with
        | none => simp [ha] at ho2
        | some v => simp [Refusal]
      generalize hen : stepEnd H s2 i = en at h hend
      obtain ⟨s3, r3, e3⟩ := en
      cases r3 <;> simp_all [Refusal]
    | id j =>
      simp only at h
      have hs2 : s2.finalized = false ∧ (alookup i s2.opened).isSome := by
        -- `stepAppend` never answers `.id`
        exfalso
        unfold stepAppend at hap
        simp only [hf, Bool.false_eq_true, if_false] at hap
        cases ha : alookup i s1.opened with
        | none => simp [ha] at hap
        | some v =>
          simp only [ha] at hap
          split at hap
          · simp at hap
          · simp only [Prod.mk.injEq] at hap
            obtain ⟨_, hr, _⟩ := hap
            split at hr <;> simp at hr
      obtain ⟨hf2, ho2⟩ := hs2
      have hend : ¬ Refusal (stepEnd H s2 i).2.1 := by
        unfold stepEnd
        simp only [hf2, Bool.false_eq_true, if_false]
        cases ha : alookup i s2.opened with
        | none => simp [ha] at ho2
        | some v => simp [Refusal]
      generalize hen : stepEnd H s2 i = en at h hend
      obtain ⟨s3, r3, e3⟩ := en
      cases r3 <;> simp_all [Refusal]

/-- **C09.refused_noop** — a call answered with a pre-write refusal leaves the state exactly as it
    was and emits nothing. -/
theorem refused_noop (s : WState) (op : Op) :
    Refusal (Writer.step P H s op).2.1 →
      (Writer.step P H s op).1 = s ∧ (Writer.step P H s op).2.2 = [] := by
  intro h
  cases op with
  | start name => have := start_refused P s name h; simp only [Writer.step] at *; rw [this]; exact ⟨rfl, rfl⟩
  | append id size src => have := append_refused s id size src h; simp only [Writer.step] at *; rw [this]; exact ⟨rfl, rfl⟩
  | end_ id => have := end_refused H s id h; simp only [Writer.step] at *; rw [this]; exact ⟨rfl, rfl⟩
  | add name size src => have := add_refused P H s name size src h; simp only [Writer.step] at *; rw [this]; exact ⟨rfl, rfl⟩
  | flush => simp [Writer.step, Refusal] at h
  | finalize => have := finalize_refused s h; simp only [Writer.step] at *; rw [this]; exact ⟨rfl, rfl⟩

/-- keep the calls that are not refused, given the state they are issued in -/
def keepAccepted (s : WState) : List Op → List Op
  | [] => []
  | op :: ops =>
    let r := Writer.step P H s op
    if Refusal r.2.1 then keepAccepted s ops else op :: keepAccepted r.1 ops

/-- **C09.erase** — the sequence with the refused calls removed ends in the same state and emits
    the same bytes; the kept calls get the same results. -/
theorem erase (s : WState) (ops : List Op) :
    (Writer.runFrom P H s (keepAccepted P H s ops)).1 = (Writer.runFrom P H s ops).1 ∧
    (Writer.runFrom P H s (keepAccepted P H s ops)).2.2 = (Writer.runFrom P H s ops).2.2 ∧
    (Writer.runFrom P H s (keepAccepted P H s ops)).2.1 =
      (Writer.runFrom P H s ops).2.1.filter (fun r => !decide (Refusal r)) := by
  induction ops generalizing s with
  | nil => simp [keepAccepted, Writer.runFrom]
  | cons op ops ih =>
    by_cases h : Refusal (Writer.step P H s op).2.1
    · obtain ⟨h1, h2⟩ := refused_noop P H s op h
      have ih' := ih s
      simp only [keepAccepted, h, if_true, Writer.runFrom]
      rw [h1] at *
      simp only [h2, List.nil_append]
      refine ⟨ih'.1, ih'.2.1, ?_⟩
      simp [List.filter, h, ih'.2.2]
    · have ih' := ih (Writer.step P H s op).1
      simp only [keepAccepted, h, if_false, Writer.runFrom]
      refine ⟨ih'.1, by rw [ih'.2.1], ?_⟩
      simp [List.filter, h, ih'.2.2]

/-- **C09.short_source** — appending from a source that ends before the announced size is never
    reported as success. -/
theorem short_source (s : WState) (id size : Nat) (src : Bytes) (h : src.length < size) :
    (Writer.step P H s (.append id size src)).2.1 ≠ .ok := by
  simp only [Writer.step]
  unfold stepAppend
  split
  · simp
  · split
    · simp
    · have hz : size ≠ 0 := by omega
      simp only [hz, if_false]
      have : (src.take size).length < size := by simp; omega
      simp only [this, if_true]
      simp

theorem start_ne_ok (s : WState) (name : Bytes) : (stepStart P s name).2.1 ≠ .ok := by
  unfold stepStart
  split
  · simp
  · split
    · simp
    · split <;> simp

theorem append_ne_id (s : WState) (id size : Nat) (src : Bytes) (j : Nat) :
    (stepAppend s id size src).2.1 ≠ .id j := by
  unfold stepAppend
  split
  · simp
  · split
    · simp
    · split
      · simp
      · dsimp only
        split <;> simp

theorem short_source_add (s : WState) (name : Bytes) (size : Nat) (src : Bytes) (h : src.length < size) :
    (Writer.step P H s (.add name size src)).2.1 ≠ .ok := by
  simp only [Writer.step]
  unfold stepAdd
  have hs := start_ne_ok P s name
  generalize stepStart P s name = st at hs
  obtain ⟨s1, r1, e1⟩ := st
  cases r1 with
  | ok => exact absurd rfl hs
  | err e => simp
  | id i =>
    simp only
    have := short_source P H s1 i size src h
    have hid := append_ne_id s1 i size src
    simp only [Writer.step] at this
    generalize stepAppend s1 i size src = ap at this hid
    obtain ⟨s2, r2, e2⟩ := ap
    cases r2 with
    | err e => simp
    | ok => exact absurd rfl this
    | id j => exact absurd rfl (hid j)

/-- **C09.after_finalize** — once finalized, every call but `flush` is refused with `state`. -/
theorem after_finalize (s : WState) (op : Op) (hf : s.finalized = true) (hop : op ≠ .flush) :
    (Writer.step P H s op).2.1 = .err .state := by
  cases op with
  | start name => simp [Writer.step, stepStart, hf]
  | append id size src => simp [Writer.step, stepAppend, hf]
  | end_ id => simp [Writer.step, stepEnd, hf]
  | add name size src => simp [Writer.step, stepAdd, stepStart, hf]
  | flush => exact absurd rfl hop
  | finalize => simp [Writer.step, stepFinalize, hf]

/-- finalization with a file still open is refused and changes nothing -/
theorem finalize_open (s : WState) (h : s.opened ≠ []) :
    Writer.step P H s .finalize = (s, .err .state, []) := by
  simp only [Writer.step, stepFinalize]
  split
  · rfl
  · simp [h]

/-- **C09.must_refuse** — the refusals the property lists, each answered with an error (and, by
    `refused_noop`, without any effect): a call on an id that is not open (never issued, or ended),
    a name already used, a name longer than the limit, finalization while a file is open, anything
    but `flush` after finalization. -/
theorem must_refuse (s : WState) :
    (∀ id size src, alookup id s.opened = none → (Writer.step P H s (.append id size src)).2.1 = .err .state) ∧
    (∀ id, alookup id s.opened = none → (Writer.step P H s (.end_ id)).2.1 = .err .state) ∧
    (∀ name, s.finalized = false → (nameLookup name s.names).isSome = true →
      (Writer.step P H s (.start name)).2.1 = .err .dupName ∧
      ∀ size src, (Writer.step P H s (.add name size src)).2.1 = .err .dupName) ∧
    (∀ name, s.finalized = false → (nameLookup name s.names).isSome = false → P.nameMax < name.length →
      (Writer.step P H s (.start name)).2.1 = .err .nameTooLong ∧
      ∀ size src, (Writer.step P H s (.add name size src)).2.1 = .err .nameTooLong) ∧
    (s.opened ≠ [] → (Writer.step P H s .finalize).2.1 = .err .state) := by
  refine ⟨?_, ?_, ?_, ?_, ?_⟩
  · intro id size src h
    simp only [Writer.step, stepAppend, h]; split <;> rfl
  · intro id h
    simp only [Writer.step, stepEnd, h]; split <;> rfl
  · intro name hf h
    constructor
    · simp [Writer.step, stepStart, hf, h]
    · intro size src; simp [Writer.step, stepAdd, stepStart, hf, h]
  · intro name hf h hl
    constructor
    · simp [Writer.step, stepStart, hf, h, hl]
    · intro size src; simp [Writer.step, stepAdd, stepStart, hf, h, hl]
  · intro h
    rw [finalize_open P H s h]

/-- an ended id is not open any more: `end_` erases it (ids are unique in `opened`: one entry per
    `start`, `nextId` strictly increasing — the invariant of `Proofs/WriterInv`) -/
example : alookup 0 (Writer.step Params.prod (fun _ => [])
    { opened := [(0, [])], info := [(0, ⟨[0], 0, 0⟩)], nextId := 1 } (.end_ 0)).1.opened = none := by decide

/-! Non-vacuity: concrete states meeting the hypotheses. -/
example : Refusal (Writer.step Params.prod (fun _ => []) ({ names := [([97], 0)] } : WState) (.start [97])).2.1 := by
  decide
example : ¬ Refusal (Writer.step Params.prod (fun _ => []) WState.init (.start [97])).2.1 := by
  decide
example : (Writer.step Params.prod (fun _ => []) { opened := [(0, [])], info := [(0, ⟨[0], 0, 0⟩)] }
    (.append 0 5 [1, 2])).2.1 = .err .short := by decide

end MlaModel.C09

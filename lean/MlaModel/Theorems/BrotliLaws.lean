/-
  Theorems: `Codec.brotli strict` (stored-only encoder + the native RFC 7932 decoder of
  `MlaModel/Brotli/Decode.lean`) satisfies the codec contract `Codec.Laws`, for both values of `strict`.
  On every prefix of every stream the stored encoder can produce, the native decoder's streaming view
  equals that of the subset decoder `storedDecStream`.
  Proofs: `MlaModel/Proofs/BrotliStored.lean`, `MlaModel/Proofs/BrotliStoredPrefix.lean`.
-/
import MlaModel.Theorems.BrotliStored
import MlaModel.Proofs.BrotliStoredPrefix
namespace MlaModel
open Brotli StoredPf BrStoredPf

/-- every proper prefix of a stored stream: the native decoder delivers `sOut`, sees no end, no error -/
theorem brotliDecStream_stored_prefix (strict : Bool) (cs : List Bytes)
    (hv : ∀ c ∈ cs, 1 ≤ c.length ∧ c.length ≤ 2 ^ 24) (k : Nat) (hk : k < (sStream true cs).length) :
    brotliDecStream strict ((sStream true cs).take k) = (sOut true cs k, none, false) :=
  brotliDecStream_take strict cs hv k hk

/-- on every prefix (proper or not) of a stored stream the two decoders agree -/
theorem brotliDecStream_agrees (strict : Bool) (cs : List Bytes)
    (hv : ∀ c ∈ cs, 1 ≤ c.length ∧ c.length ≤ 2 ^ 24) (k : Nat) :
    brotliDecStream strict ((sStream true cs).take k) = storedDecStream ((sStream true cs).take k) := by
  by_cases hk : k < (sStream true cs).length
  · rw [brotliDecStream_take strict cs hv k hk, decStream_take cs k hv hk]
  · rw [List.take_of_length_le (by omega)]
    have h1 := brotliDecStream_sStream strict cs [] hv
    have h2 := decStream_full cs [] hv
    rw [List.append_nil] at h1 h2
    rw [h1, h2]

/-- K2 for `Codec.brotli`. -/
theorem Codec.brotli_stream_prefix (strict : Bool) (lvl : Nat) (acts : List EAct) (k : Nat) :
    let r := (Codec.brotli strict).runActs ((Codec.brotli strict).einit lvl) acts
    k < (r.2 ++ (Codec.brotli strict).efinish r.1).length →
    ((Codec.brotli strict).decStream ((r.2 ++ (Codec.brotli strict).efinish r.1).take k)).1
      <+: EAct.written acts ∧
    ((Codec.brotli strict).decStream ((r.2 ++ (Codec.brotli strict).efinish r.1).take k)).2.1 = none ∧
    ((Codec.brotli strict).decStream ((r.2 ++ (Codec.brotli strict).efinish r.1).take k)).2.2 = false := by
  intro r hk
  obtain ⟨cs, hv, hfl, hs⟩ := runActs_stream acts (Codec.stored.einit lvl)
  have hr : r = Codec.stored.runActs (Codec.stored.einit lvl) acts := runActs_brotli strict _ acts
  have hs' : r.2 ++ Codec.stored.efinish r.1 = sStream true cs := by rw [hr]; exact hs
  have hk' : k < (r.2 ++ Codec.stored.efinish r.1).length := hk
  show (brotliDecStream strict ((r.2 ++ Codec.stored.efinish r.1).take k)).1 <+: _ ∧
    (brotliDecStream strict ((r.2 ++ Codec.stored.efinish r.1).take k)).2.1 = none ∧
    (brotliDecStream strict ((r.2 ++ Codec.stored.efinish r.1).take k)).2.2 = false
  rw [hs'] at hk' ⊢
  rw [brotliDecStream_take strict cs hv k hk', ← hfl]
  exact ⟨sOut_prefix _ _ _, rfl, rfl⟩

/-- K1 for `Codec.brotli`. -/
theorem Codec.brotli_stream_mono (strict : Bool) (lvl : Nat) (acts : List EAct) (k₁ k₂ : Nat) :
    let r := (Codec.brotli strict).runActs ((Codec.brotli strict).einit lvl) acts
    k₁ ≤ k₂ →
    ((Codec.brotli strict).decStream ((r.2 ++ (Codec.brotli strict).efinish r.1).take k₁)).1 <+:
      ((Codec.brotli strict).decStream ((r.2 ++ (Codec.brotli strict).efinish r.1).take k₂)).1 := by
  intro r hk
  obtain ⟨cs, hv, hfl, hs⟩ := runActs_stream acts (Codec.stored.einit lvl)
  have hr : r = Codec.stored.runActs (Codec.stored.einit lvl) acts := runActs_brotli strict _ acts
  have hs' : r.2 ++ Codec.stored.efinish r.1 = sStream true cs := by rw [hr]; exact hs
  show (brotliDecStream strict ((r.2 ++ Codec.stored.efinish r.1).take k₁)).1 <+:
    (brotliDecStream strict ((r.2 ++ Codec.stored.efinish r.1).take k₂)).1
  rw [hs', brotliDecStream_agrees strict cs hv, brotliDecStream_agrees strict cs hv]
  exact decStream_take_mono cs k₁ k₂ hv hk

/-- `Codec.brotli strict` satisfies the codec contract, for `strict = true` (RFC 7932 to the letter)
    and `strict = false` (the leniencies of brotli-decompressor 4.0.2). -/
theorem Codec.brotli_laws (strict : Bool) : Codec.Laws (Codec.brotli strict) where
  dec_finish := Codec.brotli_dec_finish strict
  stream_finish := Codec.brotli_stream_finish strict
  stream_prefix := Codec.brotli_stream_prefix strict
  stream_mono := Codec.brotli_stream_mono strict
  stream_flush := Codec.brotli_stream_flush strict

/-! non-vacuity: instances of the universal statements on concrete values (TESTS) -/

-- TEST: a proper prefix cut inside the data of the second meta-block (hypothesis `k < length` holds)
example : brotliDecStream true ((sStream true [[1, 2, 3], [4, 5]]).take 10)
    = (sOut true [[1, 2, 3], [4, 5]] 10, none, false) :=
  brotliDecStream_stored_prefix true [[1, 2, 3], [4, 5]] (by
    intro c hc
    simp at hc
    rcases hc with rfl | rfl <;> simp) 10 (by decide)

end MlaModel

#print axioms MlaModel.brotliDecStream_stored_prefix
#print axioms MlaModel.brotliDecStream_agrees
#print axioms MlaModel.Codec.brotli_stream_prefix
#print axioms MlaModel.Codec.brotli_stream_mono
#print axioms MlaModel.Codec.brotli_laws

/-
  Theorems: the native RFC 7932 decoder (`MlaModel/Brotli/Decode.lean`) decodes what the stored-only
  encoder (`MlaModel/CodecStored.lean`) writes.  Universal statements, no bound on sizes.
  Proofs in `MlaModel/Proofs/BrotliStored.lean`.

  Stage 1  `readBits_spec`            : the bit reader, in terms of `getBits` of CodecStored (n ≤ 32)
  Stage 2  `decodeMetaBlock_stored`   : one uncompressed meta-block written by `storedPiece`
  Stage 3  `brotli_decodes_stored`, `brotli_decodes_empty`, `brotliDec_stored_stream`
           `Codec.brotli_dec_finish` (K4), `brotliDecStream_stored_stream`, `Codec.brotli_stream_finish` (K5)
           `Codec.brotli_stream_flush` (K3: the stream cut just before its closing byte)
  NOT proved here: `brotliDecStream` on streams cut at an ARBITRARY byte (K1 monotonicity, K2 prefixes),
  hence `Codec.Laws (Codec.brotli strict)` is not derived; three of its five fields are.
-/
import MlaModel.Proofs.BrotliStored
namespace MlaModel
open Brotli StoredPf BrStoredPf

/-- Stage 1: when `n ≤ 32` bits are available, `readBits n` succeeds, advances `pos` by `n` and
    returns the number `getBits` reads at that position of the input bytes. -/
theorem readBits_spec (n : Nat) (s : St) (hn : n ≤ 32) (h : s.pos + n ≤ 8 * s.inp.size) :
    ∃ v, getBits s.inp.data.toList s.pos n = some v ∧
      readBits n s = .ok v { s with pos := s.pos + n } :=
  ⟨_, getBits_readVal s.inp s.pos n hn h, readBits_ok n s h⟩

/-- Stage 1, past the end: not enough bits is "need more input", state unchanged. -/
theorem readBits_short (n : Nat) (s : St) (h : ¬ s.pos + n ≤ 8 * s.inp.size) :
    readBits n s = .error .needMore s := readBits_needMore n s h

/-- Stage 2: on `pre ++ storedPiece first c ++ t` at the bit after `pre` and the optional WBITS bit,
    one call of `decodeMetaBlock` returns ISLAST = false, appends `c` to the output, and stops at the
    byte after `c`. -/
theorem decodeMetaBlock_stored (cfg : Config) (wbits : Nat) (first : Bool) (pre c t : Bytes)
    (out : ByteArray) (d1 d2 d3 d4 : Nat) (sd : Bool) (h1 : 1 ≤ c.length) (h2 : c.length ≤ 2 ^ 24) :
    ∃ out' : ByteArray, out'.data.toList = out.data.toList ++ c ∧
      decodeMetaBlock cfg wbits
        ⟨⟨(pre ++ (storedPiece first c ++ t)).toArray⟩, 8 * pre.length + (if first then 1 else 0),
          out, d1, d2, d3, d4, sd⟩
      = .ok false ⟨⟨(pre ++ (storedPiece first c ++ t)).toArray⟩,
          8 * (pre ++ storedPiece first c).length, out', d1, d2, d3, d4, true⟩ := by
  have hx : 0 < codeOf c.length → 2 ^ (4 * (3 + codeOf c.length)) ≤ c.length - 1 := by
    unfold codeOf; repeat' split
    all_goals ((try simp) <;> omega)
  obtain ⟨out', ho, hd⟩ := mb_stored cfg wbits pre c t (pfx first) (codeOf c.length)
    (c.length - 1) out d1 d2 d3 d4 sd (codeOf_lt _) (codeOf_fit _ h1 h2) hx (by omega)
  refine ⟨out', ho, ?_⟩
  have e1 : (pfx first).length = if first then 1 else 0 := by cases first <;> rfl
  have e2 : 8 * (pre ++ storedPiece first c).length
      = 8 * (pre.length + (hbytes (pfx first) (codeOf c.length) (c.length - 1)).length + c.length) := by
    rw [storedPiece_eq]; simp; omega
  rw [e2, storedPiece_eq, List.append_assoc, ← e1]
  exact hd

/-- Stage 3, chunk form: every stream of valid chunks followed by the closing byte. -/
theorem brotliDec_stored_stream (strict : Bool) (cs : List Bytes)
    (hv : ∀ c ∈ cs, 1 ≤ c.length ∧ c.length ≤ 2 ^ 24) :
    brotliDec strict (sStream true cs) = some cs.flatten :=
  brotliDec_sStream strict cs hv

/-- Stage 3: the native decoder decodes a whole write of the stored encoder (any size). -/
theorem brotli_decodes_stored (strict : Bool) (b : Bytes) (hb : b ≠ []) :
    brotliDec strict (storedWrite (b.length / 2 ^ 24 + 2) true b ++ [3]) = some b := by
  have h := storedWrite_first (b.length / 2 ^ 24 + 1) true b [] hb
  have e3 : sStream false [] = [3] := rfl
  rw [e3, List.append_nil] at h
  rw [h, brotliDec_sStream strict _ (chunks24_valid _ _)]
  rw [chunks24_flatten _ _ (by
    have := Nat.lt_div_mul_add (a := b.length) (b := 2 ^ 24) (by omega)
    omega)]

/-- Stage 3: the empty stream. -/
theorem brotli_decodes_empty (strict : Bool) : brotliDec strict [6] = some [] :=
  brotliDec_sStream strict [] (by intro c hc; simp at hc)


theorem runActs_brotli (strict : Bool) (es : StoredES) (acts : List EAct) :
    (Codec.brotli strict).runActs es acts = Codec.stored.runActs es acts := by
  induction acts generalizing es with
  | nil => rfl
  | cons a r ih =>
    cases a with
    | write b =>
      simp only [Codec.runActs]
      exact congrArg (fun p : StoredES × Bytes => (p.1, (Codec.stored.ewrite es b).2 ++ p.2))
        (ih (Codec.stored.ewrite es b).1)
    | flush =>
      simp only [Codec.runActs]
      exact congrArg (fun p : StoredES × Bytes => (p.1, (Codec.stored.eflush es).2 ++ p.2))
        (ih (Codec.stored.eflush es).1)

/-- K4 for `Codec.brotli`: a finished stream of the stored encoder is decoded by the native RFC 7932
    decoder to exactly what was written. -/
theorem Codec.brotli_dec_finish (strict : Bool) (lvl : Nat) (acts : List EAct) :
    let r := (Codec.brotli strict).runActs ((Codec.brotli strict).einit lvl) acts
    (Codec.brotli strict).dec (r.2 ++ (Codec.brotli strict).efinish r.1) = some (EAct.written acts) := by
  intro r
  obtain ⟨cs, hv, hfl, hs⟩ := runActs_stream acts (Codec.stored.einit lvl)
  have hr : r = Codec.stored.runActs (Codec.stored.einit lvl) acts := runActs_brotli strict _ acts
  have hs' : r.2 ++ Codec.stored.efinish r.1 = sStream true cs := by rw [hr]; exact hs
  show brotliDec strict (r.2 ++ Codec.stored.efinish r.1) = _
  rw [hs', brotliDec_sStream strict cs hv, hfl]

/-- Stage 3, streaming view: followed by anything, the native decoder delivers the plaintext and stops
    exactly at the end of the stored stream; on such inputs it agrees with `storedDecStream`. -/
theorem brotliDecStream_stored_stream (strict : Bool) (cs : List Bytes) (rest : Bytes)
    (hv : ∀ c ∈ cs, 1 ≤ c.length ∧ c.length ≤ 2 ^ 24) :
    brotliDecStream strict (sStream true cs ++ rest) = (cs.flatten, some rest, false) ∧
    brotliDecStream strict (sStream true cs ++ rest) = storedDecStream (sStream true cs ++ rest) := by
  have h := brotliDecStream_sStream strict cs rest hv
  exact ⟨h, by rw [h, decStream_full cs rest hv]⟩

/-- K5 for `Codec.brotli`. -/
theorem Codec.brotli_stream_finish (strict : Bool) (lvl : Nat) (acts : List EAct) (rest : Bytes) :
    let r := (Codec.brotli strict).runActs ((Codec.brotli strict).einit lvl) acts
    (Codec.brotli strict).decStream (r.2 ++ (Codec.brotli strict).efinish r.1 ++ rest)
      = (EAct.written acts, some rest, false) := by
  intro r
  obtain ⟨cs, hv, hfl, hs⟩ := runActs_stream acts (Codec.stored.einit lvl)
  have hr : r = Codec.stored.runActs (Codec.stored.einit lvl) acts := runActs_brotli strict _ acts
  have hs' : r.2 ++ Codec.stored.efinish r.1 = sStream true cs := by rw [hr]; exact hs
  show brotliDecStream strict (r.2 ++ Codec.stored.efinish r.1 ++ rest) = _
  rw [hs', brotliDecStream_sStream strict cs rest hv, hfl]

/-- K3 for `Codec.brotli`: after a flush, everything written so far is decoded by the native decoder
    from what was emitted (the stream without its closing byte: status "need more input"). -/
theorem Codec.brotli_stream_flush (strict : Bool) (lvl : Nat) (acts : List EAct) :
    let r := (Codec.brotli strict).runActs ((Codec.brotli strict).einit lvl) (acts ++ [.flush])
    ((Codec.brotli strict).decStream r.2).1 = EAct.written acts := by
  intro r
  have hr0 : r = Codec.stored.runActs (Codec.stored.einit lvl) (acts ++ [.flush]) :=
    runActs_brotli strict _ _
  have hr : r.2 = (Codec.stored.runActs (Codec.stored.einit lvl) acts).2 := by
    rw [hr0]; exact runActs_flush acts _
  obtain ⟨cs, hv, hfl, hs⟩ := runActs_stream acts (Codec.stored.einit lvl)
  have hs' : (Codec.stored.runActs (Codec.stored.einit lvl) acts).2 ++
      Codec.stored.efinish (Codec.stored.runActs (Codec.stored.einit lvl) acts).1
        = sStream true cs := hs
  have hl1 := efinish_length (Codec.stored.runActs (Codec.stored.einit lvl) acts).1
  rw [sStream_eq_sBody] at hs'
  have ht : r.2 = sBody true cs := by
    rw [hr]
    exact List.append_inj_left' hs' (by rw [hl1]; rfl)
  show (brotliDecStream strict r.2).1 = _
  rw [ht, brotliDecStream_sBody strict cs hv, hfl]

/-! non-vacuity (evaluated examples are TESTS, not proofs of the universal statements) -/

-- TEST: hypotheses of Stage 1 are satisfiable
example : (⟨⟨#[0x2c, 0x01]⟩, 3, ByteArray.empty, 4, 11, 15, 16, false⟩ : St).pos + 4
    ≤ 8 * (⟨⟨#[0x2c, 0x01]⟩, 3, ByteArray.empty, 4, 11, 15, 16, false⟩ : St).inp.size := by decide
-- TEST: instance of `brotli_decodes_stored`
example : brotliDec true (storedWrite ([1, 2, 3].length / 2 ^ 24 + 2) true [1, 2, 3] ++ [3]) = some [1, 2, 3] :=
  brotli_decodes_stored true [1, 2, 3] (by simp)
-- TEST: hypotheses of `brotliDec_stored_stream` are satisfiable with two chunks
example : brotliDec false (sStream true [[7], [8, 9]]) = some [7, 8, 9] :=
  brotliDec_stored_stream false [[7], [8, 9]] (by
    intro c hc
    simp at hc
    rcases hc with rfl | rfl <;> simp)

end MlaModel

#print axioms MlaModel.readBits_spec
#print axioms MlaModel.decodeMetaBlock_stored
#print axioms MlaModel.brotliDec_stored_stream
#print axioms MlaModel.brotli_decodes_stored
#print axioms MlaModel.brotli_decodes_empty
#print axioms MlaModel.Codec.brotli_dec_finish
#print axioms MlaModel.brotliDecStream_stored_stream
#print axioms MlaModel.Codec.brotli_stream_finish
#print axioms MlaModel.Codec.brotli_stream_flush

/-
  C07 — Confidentiality: fresh secrets per archive, no plaintext, recipients only.   *partial*

  What is proved here (over the model `MlaModel.Stack`):
  * `C07.all_through_cipher` — with ENCRYPT on (with or without COMPRESS), for every op sequence,
    every flush placement and every way the layers cut their output into `write_all` calls, the
    bytes that reach the destination after the header are exactly `sealS P C inner` once finalized,
    and `sealS P C inner` minus its last tag before: no byte reaches the destination that did not go
    through the cipher.  `inner` is the archive writer's block stream (`C07.inner_plain`) or a
    well-formed compressed stream of it (`C07.inner_compressed`).
  * `C07.unwrap` / `C07.no_recipient` / `C07.no_key` — the candidate loop of `load_persistent` over
    `retrieve_key` returns the archive key for a recipient's secret at ANY position among decoys,
    and an error when no candidate opens anything or no candidate is given.
  * `C07.draws` / `C07.draws_only_through` / `C07.archive_sealed` — the three draws reach
    `encryption_key`, the header nonce and `public = dh eph base` unmodified, the body is sealed
    under exactly `(key, nonce)`, and the header depends on the draws only through the nonce,
    `dh eph base` and the wrapped keys.

  What a model cannot carry (measured by the harness instead): that the draws are *fresh* (OS
  randomness), and that `sealS` output does not contain the plaintext (pseudo-randomness of AES-CTR).
-/
import MlaModel.Stack
import MlaModel.CodecStored
import MlaModel.Proofs.EncryptWriter
import MlaModel.Proofs.CompressWriter
import MlaModel.Proofs.WriterInv
namespace MlaModel.C07
open MlaModel

/-! ### call lists -/

theorem written_map_write (l : List Bytes) : LAct.written (l.map LAct.write) = l.flatten := by
  induction l with
  | nil => rfl
  | cons a l ih => simp [LAct.written, ih]

theorem pieces_flatten (acts : List LAct) : (LAct.pieces acts).flatten = LAct.written acts := by
  induction acts with
  | nil => rfl
  | cons a acts ih => cases a <;> simp [LAct.pieces, LAct.written, ih]

theorem written_cut (cut : Cut) (i : Nat) (b : Bytes) : LAct.written ((cut.f i b).map LAct.write) = b := by
  rw [written_map_write, cut.flat]

/-! ### the archive writer's calls -/

section
variable (P : Params) (H : Bytes → Bytes)

theorem step_emits_nil_of_finalized (s : WState) (op : Op) (hf : s.finalized = true) :
    (Writer.step P H s op).2.2 = [] := by
  cases op <;> simp [Writer.step, stepStart, stepAppend, stepEnd, stepFinalize, stepAdd, hf]

theorem runFrom_emits_nil_of_finalized (s : WState) (ops : List Op) (hf : s.finalized = true) :
    (Writer.runFrom P H s ops).2.2 = [] := by
  induction ops with
  | nil => rfl
  | cons op ops ih =>
    rw [runFrom_cons]
    simp only
    rw [step_emits_nil_of_finalized P H s op hf, step_of_finalized P H s op hf, ih]
    rfl

/-- a flush emits nothing at the archive-writer level -/
theorem step_flush (s : WState) : Writer.step P H s .flush = (s, .ok, []) := rfl

/-- the calls issued by the archive writer carry exactly its block stream -/
theorem topActs_written (cut : Cut) (ops : List Op) : ∀ (i : Nat) (s : WState),
    LAct.written (Stack.topActs P H cut i s ops).1 = (Writer.runFrom P H s ops).2.2 := by
  induction ops with
  | nil => intro i s; rfl
  | cons op ops ih =>
    intro i s
    rw [runFrom_cons]
    have hhere : LAct.written (Stack.opActs cut i op (Writer.step P H s op).2.2) = (Writer.step P H s op).2.2 := by
      cases op <;> first | exact written_cut cut i _ | rfl
    unfold Stack.topActs
    by_cases hfin : ((Writer.step P H s op).1.finalized && !s.finalized) = true
    · simp only [hfin, if_true]
      have h1 : (Writer.step P H s op).1.finalized = true := by
        simp only [Bool.and_eq_true] at hfin; exact hfin.1
      rw [runFrom_emits_nil_of_finalized P H _ ops h1, hhere]; simp
    · simp only [hfin, Bool.false_eq_true, if_false]
      rw [LAct.written_append, hhere, ih]

/-- the pipeline's `fin` flag is the archive writer's `finalized` -/
theorem topActs_fin (cut : Cut) (ops : List Op) : ∀ (i : Nat) (s : WState), s.finalized = false →
    (Stack.topActs P H cut i s ops).2 = (Writer.runFrom P H s ops).1.finalized := by
  induction ops with
  | nil => intro i s hs; simp [Stack.topActs, Writer.runFrom, hs]
  | cons op ops ih =>
    intro i s hs
    rw [runFrom_cons]
    unfold Stack.topActs
    by_cases h1 : (Writer.step P H s op).1.finalized = true
    · simp only [h1, hs, Bool.not_false, Bool.and_self, if_true]
      rw [runFrom_of_finalized P H _ ops h1, h1]
    · have h1' : (Writer.step P H s op).1.finalized = false := by simpa using h1
      simp only [h1', Bool.false_and, Bool.false_eq_true, if_false]
      exact ih (i + 1) _ h1'

end

/-! ### the compression layer as a transducer -/

section
variable (P : Params) (K : Codec)

theorem compStep_acc (w : CW K) (out : Bytes) (a : LAct) :
    compStep P K (w, out) a = ((compStep P K (w, []) a).1, out ++ (compStep P K (w, []) a).2) := by
  cases a <;> simp [compStep]

theorem compFoldl_acc (acts : List LAct) : ∀ (w : CW K) (out : Bytes),
    acts.foldl (compStep P K) (w, out) =
      ((acts.foldl (compStep P K) (w, [])).1, out ++ (acts.foldl (compStep P K) (w, [])).2) := by
  induction acts with
  | nil => intro w out; simp
  | cons a acts ih =>
    intro w out
    simp only [List.foldl_cons]
    rw [compStep_acc, ih, ih (compStep P K (w, []) a).1 (compStep P K (w, []) a).2]
    simp [List.append_assoc]

/-- whatever the cut, the compression layer hands down exactly what `compStep` emits, then (once
    finalized) its `finalize` bytes -/
theorem compTrans_written (cut : Cut) (fin : Bool) (acts : List LAct) : ∀ (i : Nat) (w : CW K),
    LAct.written (Stack.compTrans P K cut i w acts fin) =
      (acts.foldl (compStep P K) (w, [])).2 ++
        (if fin then ((acts.foldl (compStep P K) (w, [])).1).finalize K else []) := by
  induction acts with
  | nil =>
    intro i w
    cases fin <;> simp [Stack.compTrans, written_cut, LAct.written]
  | cons a acts ih =>
    intro i w
    unfold Stack.compTrans
    simp only [List.foldl_cons]
    have e : acts.foldl (compStep P K) (compStep P K (w, []) a) =
        ((acts.foldl (compStep P K) ((compStep P K (w, []) a).1, [])).1,
         (compStep P K (w, []) a).2 ++ (acts.foldl (compStep P K) ((compStep P K (w, []) a).1, [])).2) :=
      compFoldl_acc P K acts (compStep P K (w, []) a).1 (compStep P K (w, []) a).2
    have hmid : LAct.written (Stack.fwdFlush a) = [] := by
      cases a <;> rfl
    rw [LAct.written_append, LAct.written_append, written_cut, ih, hmid, e]
    simp [List.append_assoc]

end

/-! ### the stack -/

section
variable (P : Params) (H : Bytes → Bytes) (C : EncPrims) (K : Codec)

/-- what reaches the encryption layer is `Stack.inner`, whatever the cuts -/
theorem lowActs_written (cfg : StackCfg) (cutTop cutComp : Cut) (ops : List Op) :
    LAct.written (Stack.lowActs P H K cfg cutTop cutComp ops).1 = Stack.inner P H K cfg cutTop ops := by
  obtain ⟨lvl, enc⟩ := cfg
  cases lvl with
  | none => rfl
  | some l => simp only [Stack.lowActs, Stack.inner]; rw [compTrans_written]; rfl

theorem lowActs_fin (cfg : StackCfg) (cutTop cutComp : Cut) (ops : List Op) :
    (Stack.lowActs P H K cfg cutTop cutComp ops).2 = (Writer.run P H ops).1.finalized := by
  obtain ⟨lvl, enc⟩ := cfg
  have := topActs_fin P H cutTop ops 0 WState.init rfl
  cases lvl <;> simpa [Stack.lowActs, Writer.run] using this

/-- **C07.all_through_cipher.**  ENCRYPT on, COMPRESS on or off (`lvl`), any op sequence (flushes
    anywhere), any cut of the upper layers' output into `write_all` calls: once finalized the bytes
    after the header are exactly `sealS P C inner`; before, they are `sealS P C inner` less the tag
    of the open chunk.  Nothing else reaches the destination. -/
theorem all_through_cipher (lvl : Option Nat) (cutTop cutComp : Cut) (ops : List Op) :
    let o := Stack.run P H C K ⟨lvl, true⟩ cutTop cutComp ops
    let inner := Stack.inner P H K ⟨lvl, true⟩ cutTop ops
    (o.fin = true → o.dest = sealS P C inner) ∧
    (o.fin = false → ∃ i c, o.dest ++ C.tag i c = sealS P C inner) ∧
    o.fin = (Writer.run P H ops).1.finalized := by
  intro o inner
  have hw := lowActs_written P H K ⟨lvl, true⟩ cutTop cutComp ops
  have hseal := encWritePieces_seal P C (LAct.pieces (Stack.lowActs P H K ⟨lvl, true⟩ cutTop cutComp ops).1)
  rw [pieces_flatten, hw] at hseal
  refine ⟨?_, ?_, lowActs_fin P H K _ cutTop cutComp ops⟩
  · intro hfin
    have hfin' : (Stack.lowActs P H K ⟨lvl, true⟩ cutTop cutComp ops).2 = true := hfin
    have hd : o.dest = Stack.encSink P C (Stack.lowActs P H K ⟨lvl, true⟩ cutTop cutComp ops).1
        (Stack.lowActs P H K ⟨lvl, true⟩ cutTop cutComp ops).2 := rfl
    rw [hd, hfin']
    simp only [Stack.encSink, if_true]
    exact hseal
  · intro hfin
    have hfin' : (Stack.lowActs P H K ⟨lvl, true⟩ cutTop cutComp ops).2 = false := hfin
    refine ⟨(encWritePieces P C (LAct.pieces (Stack.lowActs P H K ⟨lvl, true⟩ cutTop cutComp ops).1)).1.ctr,
      (encWritePieces P C (LAct.pieces (Stack.lowActs P H K ⟨lvl, true⟩ cutTop cutComp ops).1)).1.cur, ?_⟩
    have hd : o.dest = Stack.encSink P C (Stack.lowActs P H K ⟨lvl, true⟩ cutTop cutComp ops).1
        (Stack.lowActs P H K ⟨lvl, true⟩ cutTop cutComp ops).2 := rfl
    rw [hd, hfin']
    simp only [Stack.encSink, Bool.false_eq_true, if_false, List.append_nil]
    exact hseal

/-- without COMPRESS the protected stream is the archive writer's block stream -/
theorem inner_plain (enc : Bool) (cutTop : Cut) (ops : List Op) :
    Stack.inner P H K ⟨none, enc⟩ cutTop ops = (Writer.run P H ops).2.2 :=
  topActs_written P H cutTop ops 0 WState.init

/-- with COMPRESS, once finalized, the protected stream is a well-formed compressed stream of the
    archive writer's block stream (for any codec satisfying K4) -/
theorem inner_compressed (hK : K.DecFinish) (l : Nat) (enc : Bool) (cutTop : Cut) (ops : List Op)
    (hfin : (Writer.run P H ops).1.finalized = true) :
    ∃ cs, IsCompressed P K (Writer.run P H ops).2.2 cs (Stack.inner P H K ⟨some l, enc⟩ cutTop ops) := by
  have hf : (Stack.topActs P H cutTop 0 WState.init ops).2 = true := by
    rw [topActs_fin P H cutTop ops 0 WState.init rfl]; exact hfin
  have hinv := compRun_inv P K hK l (Stack.topActs P H cutTop 0 WState.init ops).1
  rw [topActs_written] at hinv
  have := CW.finalize_wellformed P K hK l _ _ _ hinv
  simpa [Stack.inner, hf, Writer.run] using this

/-- ENCRYPT off: the protected stream reaches the destination as it is (what the property is about) -/
theorem no_encrypt_passthrough (lvl : Option Nat) (cutTop cutComp : Cut) (ops : List Op) :
    (Stack.run P H C K ⟨lvl, false⟩ cutTop cutComp ops).dest = Stack.inner P H K ⟨lvl, false⟩ cutTop ops :=
  lowActs_written P H K ⟨lvl, false⟩ cutTop cutComp ops

end

/-! ### recipients only -/

section
variable (E : SEcies)

/-- the persistent configuration written for recipients with secrets `sks` -/
def persistentFor (sks : List Bytes) (key nonce eph : Bytes) : EncPersistent :=
  (EncConfig.mk (sks.map fun sk => E.dh sk E.base) key nonce).toPersistent E eph

/-- Hypothesis of the positive direction (a consequence of INT-CTXT for honestly wrapped keys):
    whatever a candidate manages to open among the wrapped keys is the archive key. -/
def OnlyKey (p : EncPersistent) (cands : List Bytes) (key : Bytes) : Prop :=
  ∀ sk ∈ cands, ∀ c ∈ p.wrapped, ∀ m, E.unwrap (E.deriveKey sk p.pub) c = some m → m = key

/-- Hypothesis of the negative direction (INT-CTXT): a key not derived from a recipient opens none
    of the wrapped keys. -/
def OpensNothing (p : EncPersistent) (cands : List Bytes) : Prop :=
  ∀ sk ∈ cands, ∀ c ∈ p.wrapped, E.unwrap (E.deriveKey sk p.pub) c = none

/-- executable forms of the two hypotheses (used to exhibit instances) -/
def onlyKeyB (p : EncPersistent) (cands : List Bytes) (key : Bytes) : Bool :=
  cands.all fun sk => p.wrapped.all fun c =>
    match E.unwrap (E.deriveKey sk p.pub) c with
    | some m => m == key
    | none => true

def opensNothingB (p : EncPersistent) (cands : List Bytes) : Bool :=
  cands.all fun sk => p.wrapped.all fun c => (E.unwrap (E.deriveKey sk p.pub) c).isNone

theorem onlyKey_of_check (p : EncPersistent) (cands : List Bytes) (key : Bytes)
    (h : onlyKeyB E p cands key = true) : OnlyKey E p cands key := by
  intro sk hsk c hc m hm
  simp only [onlyKeyB, List.all_eq_true] at h
  have := h sk hsk c hc
  rw [hm] at this
  simpa using this

theorem opensNothing_of_check (p : EncPersistent) (cands : List Bytes)
    (h : opensNothingB E p cands = true) : OpensNothing E p cands := by
  intro sk hsk c hc
  simp only [opensNothingB, List.all_eq_true] at h
  simpa using h sk hsk c hc

theorem retrieve_go_mem (k : Bytes) (l : List Bytes) (d : Bytes)
    (h : SEcies.retrieveKey.go E k l = some d) : ∃ c ∈ l, E.unwrap k c = some d := by
  induction l with
  | nil => simp [SEcies.retrieveKey.go] at h
  | cons c l ih =>
    unfold SEcies.retrieveKey.go at h
    cases hc : E.unwrap k c with
    | some d' => rw [hc] at h; simp at h; exact ⟨c, by simp, by rw [hc, h]⟩
    | none => rw [hc] at h; obtain ⟨c', hm, hu⟩ := ih h; exact ⟨c', by simp [hm], hu⟩

theorem retrieve_go_some_of_mem (k : Bytes) (l : List Bytes) (c m : Bytes) (hc : c ∈ l)
    (h : E.unwrap k c = some m) : ∃ d, SEcies.retrieveKey.go E k l = some d := by
  induction l with
  | nil => simp at hc
  | cons c' l ih =>
    unfold SEcies.retrieveKey.go
    cases hc' : E.unwrap k c' with
    | some d' => exact ⟨d', rfl⟩
    | none =>
      rcases List.mem_cons.mp hc with rfl | hm
      · rw [h] at hc'; cases hc'
      · exact ih hm

theorem retrieve_go_none (k : Bytes) (l : List Bytes) (h : ∀ c ∈ l, E.unwrap k c = none) :
    SEcies.retrieveKey.go E k l = none := by
  induction l with
  | nil => rfl
  | cons c l ih =>
    unfold SEcies.retrieveKey.go
    rw [h c (by simp)]
    exact ih fun c' hc' => h c' (by simp [hc'])

/-- a candidate returns nothing or the archive key -/
theorem retrieve_only (p : EncPersistent) (cands : List Bytes) (key : Bytes) (h : OnlyKey E p cands key)
    (sk : Bytes) (hsk : sk ∈ cands) (d : Bytes) (hd : E.retrieveKey p sk = some d) : d = key := by
  obtain ⟨c, hc, hu⟩ := retrieve_go_mem E _ _ _ hd
  exact h sk hsk c hc d hu

/-- a recipient's secret returns the archive key -/
theorem retrieve_recipient (hE : E.Laws) (sks : List Bytes) (key nonce eph : Bytes) (i : Nat) (hi : i < sks.length)
    (cands : List Bytes) (hmem : sks[i] ∈ cands)
    (h : OnlyKey E (persistentFor E sks key nonce eph) cands key) :
    E.retrieveKey (persistentFor E sks key nonce eph) sks[i] = some key := by
  have hk : E.deriveKey sks[i] (persistentFor E sks key nonce eph).pub = E.deriveKey eph (E.dh sks[i] E.base) := by
    simp [persistentFor, EncConfig.toPersistent, SEcies.storeKey, SEcies.deriveKey, hE.dh_comm]
  have hw : E.wrap (E.deriveKey eph (E.dh sks[i] E.base)) key ∈ (persistentFor E sks key nonce eph).wrapped := by
    simp only [persistentFor, EncConfig.toPersistent, SEcies.storeKey, List.map_map, List.mem_map]
    exact ⟨sks[i], List.getElem_mem hi, rfl⟩
  have hu : E.unwrap (E.deriveKey sks[i] (persistentFor E sks key nonce eph).pub)
      (E.wrap (E.deriveKey eph (E.dh sks[i] E.base)) key) = some key := by
    rw [hk]; exact hE.unwrap_wrap _ _
  obtain ⟨d, hd⟩ := retrieve_go_some_of_mem E _ _ _ _ hw hu
  have hd' : E.retrieveKey (persistentFor E sks key nonce eph) sks[i] = some d := hd
  rw [hd', retrieve_only E _ cands key h sks[i] hmem d hd']

theorem tryKeys_found (p : EncPersistent) (key : Bytes) (pre : List Bytes) (sk : Bytes) (post : List Bytes)
    (hpre : ∀ s ∈ pre, ∀ d, E.retrieveKey p s = some d → d = key) (hsk : E.retrieveKey p sk = some key) :
    E.tryKeys p (pre ++ sk :: post) = some key := by
  induction pre with
  | nil => simp [SEcies.tryKeys, hsk]
  | cons s pre ih =>
    simp only [List.cons_append, SEcies.tryKeys]
    cases hs : E.retrieveKey p s with
    | some d => simp [hpre s (by simp) d hs]
    | none => exact ih fun s' hs' => hpre s' (by simp [hs'])

/-- **C07.unwrap.**  Any recipient list, any recipient `i`, its secret at ANY position among other
    candidate keys (`pre`, `post` arbitrary, decoys or other recipients): `load_persistent` yields the
    archive key and nonce. -/
theorem unwrap (hE : E.Laws) (sks : List Bytes) (key nonce eph : Bytes) (i : Nat) (hi : i < sks.length)
    (pre post : List Bytes)
    (h : OnlyKey E (persistentFor E sks key nonce eph) (pre ++ sks[i] :: post) key) :
    E.loadPersistent (persistentFor E sks key nonce eph) (pre ++ sks[i] :: post) = .ok (key, nonce) := by
  have hr := retrieve_recipient E hE sks key nonce eph i hi (pre ++ sks[i] :: post) (by simp) h
  have ht := tryKeys_found E (persistentFor E sks key nonce eph) key pre sks[i] post
    (fun s hs d hd => retrieve_only E _ _ key h s (by simp [hs]) d hd) hr
  have hne : (pre ++ sks[i] :: post) ≠ [] := by simp
  simp only [SEcies.loadPersistent, hne, if_false, ht]
  rfl

/-- **C07.no_recipient.**  Candidates none of which opens a wrapped key: an error. -/
theorem no_recipient (p : EncPersistent) (cands : List Bytes) (h : OpensNothing E p cands) :
    E.loadPersistent p cands = .error .config := by
  have ht : E.tryKeys p cands = none := by
    induction cands with
    | nil => rfl
    | cons s cands ih =>
      have hs : E.retrieveKey p s = none := retrieve_go_none E _ _ (h s (by simp))
      simp only [SEcies.tryKeys, hs]
      exact ih fun s' hs' => h s' (by simp [hs'])
  unfold SEcies.loadPersistent
  split
  · rfl
  · rw [ht]

/-- **C07.no_key.**  No candidate key at all: an error (`PrivateKeyNotSet`). -/
theorem no_key (p : EncPersistent) : E.loadPersistent p [] = .error .config := by
  simp [SEcies.loadPersistent]

end

/-! ### the draws -/

section
variable (E : SEcies)

/-- **C07.draws.**  With ENCRYPT on, the three draws reach `encryption_key()`, the nonce used by
    the cipher and stored in the header, and the header's `public = dh eph base`, unmodified; the
    wrapped keys are `wrap (kdf (dh eph recipient)) key`. -/
theorem draws (cfg : StackCfg) (henc : cfg.encrypt = true) (recipients : List Bytes) (d : Draws) (o : Opened)
    (h : Stack.fromConfig E cfg recipients d = .ok o) :
    o.encKey = d.key ∧ o.encNonce = d.nonce ∧
    o.header = encHeader cfg.bits (some ⟨E.dh d.eph E.base,
      recipients.map (fun r => E.wrap (E.kdf (E.dh d.eph r)) d.key), d.nonce⟩) := by
  unfold Stack.fromConfig at h
  simp only [henc, Bool.true_and, if_true] at h
  split at h
  · cases h
  · injection h with h
    subst h
    simp [EncConfig.default, EncConfig.addPublicKeys, EncConfig.toPersistent, SEcies.storeKey, SEcies.deriveKey]

/-- ENCRYPT on and no recipient: refused (`EncryptionKeyIsMissing`) -/
theorem no_recipients_refused (cfg : StackCfg) (henc : cfg.encrypt = true) (d : Draws) :
    Stack.fromConfig E cfg [] d = .error .config := by
  simp [Stack.fromConfig, henc, EncConfig.default, EncConfig.addPublicKeys]

/-- **C07.draws_only_through.**  The header depends on the draws only through the nonce, the
    ephemeral public key `dh eph base` and the wrapped keys: two triples of draws that agree on
    those give the same header.  (ENCRYPT off: the header does not depend on the draws at all.) -/
theorem draws_only_through (cfg : StackCfg) (recipients : List Bytes) (d d' : Draws) (o o' : Opened)
    (h : Stack.fromConfig E cfg recipients d = .ok o) (h' : Stack.fromConfig E cfg recipients d' = .ok o')
    (hn : cfg.encrypt = true → d.nonce = d'.nonce)
    (hp : cfg.encrypt = true → E.dh d.eph E.base = E.dh d'.eph E.base)
    (hw : cfg.encrypt = true → ∀ r ∈ recipients,
      E.wrap (E.kdf (E.dh d.eph r)) d.key = E.wrap (E.kdf (E.dh d'.eph r)) d'.key) :
    o.header = o'.header := by
  cases henc : cfg.encrypt with
  | true =>
    rw [(draws E cfg henc recipients d o h).2.2, (draws E cfg henc recipients d' o' h').2.2,
      hn henc, hp henc]
    have : recipients.map (fun r => E.wrap (E.kdf (E.dh d.eph r)) d.key) =
        recipients.map (fun r => E.wrap (E.kdf (E.dh d'.eph r)) d'.key) :=
      List.map_congr_left (hw henc)
    rw [this]
  | false =>
    unfold Stack.fromConfig at h h'
    simp only [henc, Bool.false_and, Bool.false_eq_true, if_false] at h h'
    injection h with h; injection h' with h'
    subst h h'; rfl

/-- **C07.archive_sealed.**  A finalized encrypted archive is its header followed by `sealS` under
    exactly the drawn key and nonce of the protected stream. -/
theorem archive_sealed (P : Params) (H : Bytes → Bytes) (prims : Bytes → Bytes → EncPrims) (K : Codec)
    (lvl : Option Nat) (recipients : List Bytes) (d : Draws) (cutTop cutComp : Cut) (ops : List Op) (o : Opened)
    (h : Stack.fromConfig E ⟨lvl, true⟩ recipients d = .ok o)
    (hfin : (Writer.run P H ops).1.finalized = true) :
    Stack.archive P H E prims K ⟨lvl, true⟩ recipients d cutTop cutComp ops =
      .ok (o.header ++ sealS P (prims d.key d.nonce) (Stack.inner P H K ⟨lvl, true⟩ cutTop ops)) := by
  obtain ⟨hk, hn, _⟩ := draws E ⟨lvl, true⟩ rfl recipients d o h
  have hall := all_through_cipher P H (prims d.key d.nonce) K lvl cutTop cutComp ops
  simp only at hall
  have hf := hall.2.2
  rw [hfin] at hf
  simp only [Stack.archive, h, hk, hn]
  rw [hall.1 hf]

end

/-! ### Non-vacuity: concrete instances -/

section Examples

def toyP : Params := Params.scaled 4 3 8 2 5 (by decide)
def toyC : EncPrims :=
  { ks := fun i off => (i * 7 + off * 3 + 1).toUInt8
    tag := fun i c => [i.toUInt8, c.length.toUInt8, c.foldl (· + ·) 0] }
def toyH (b : Bytes) : Bytes := List.replicate 32 (b.foldl (· + ·) 0)

def toyOps : List Op :=
  [.start [97], .append 0 3 [1, 2, 3], .flush, .start [98], .append 1 2 [9, 9], .append 0 1 [4],
   .end_ 1, .flush, .end_ 0, .finalize, .flush]

/-- two files interleaved over several 4-byte chunks, flushes before and after finalize, 2-byte
    `write_all` pieces: the run finalizes and the theorem's conclusion is checked by evaluation -/
example :
    let cut := Cut.bySizes (fun _ => [2, 2, 2, 2])
    let o := Stack.run toyP toyH toyC Codec.stored ⟨none, true⟩ cut Cut.whole toyOps
    o.fin = true ∧ o.dest = sealS toyP toyC (Stack.inner toyP toyH Codec.stored ⟨none, true⟩ cut toyOps) ∧
      100 < o.dest.length := by decide +kernel

/-- unfinished run: the destination lacks exactly one tag -/
example :
    let o := Stack.run toyP toyH toyC Codec.stored ⟨none, true⟩ Cut.whole Cut.whole (toyOps.take 6)
    o.fin = false ∧ ∃ i c, o.dest ++ toyC.tag i c =
      sealS toyP toyC (Stack.inner toyP toyH Codec.stored ⟨none, true⟩ Cut.whole (toyOps.take 6)) :=
  ⟨by decide, (all_through_cipher toyP toyH toyC Codec.stored none Cut.whole Cut.whole (toyOps.take 6)).2.1 (by decide)⟩

/-- toy ECIES: `dh a p = [a₀ + p₀]`, `kdf = id`, `wrap k m = k ‖ m` -/
def toyE : SEcies :=
  { dh := fun a p => [a.headD 0 + p.headD 0]
    base := [9]
    kdf := id
    wrap := fun k m => k ++ m
    unwrap := fun k c => if c.take k.length = k then some (c.drop k.length) else none }

theorem toyE_laws : toyE.Laws where
  dh_comm := by
    intro a b
    simp only [toyE, List.headD_cons]
    congr 1
    rw [← UInt8.add_assoc, ← UInt8.add_assoc, UInt8.add_comm (a.headD 0)]
  unwrap_wrap := by intro k m; simp [toyE]

/-- three recipients, the second one's secret between two decoys: hypotheses hold, key recovered -/
example :
    let sks : List Bytes := [[11], [22], [33]]
    OnlyKey toyE (persistentFor toyE sks [7, 7] [1, 2] [5]) (([[100]] : List Bytes) ++ sks[1] :: [[101]]) [7, 7] ∧
    toyE.loadPersistent (persistentFor toyE sks [7, 7] [1, 2] [5]) (([[100]] : List Bytes) ++ sks[1] :: [[101]]) = .ok ([7, 7], [1, 2]) := by
  exact ⟨onlyKey_of_check _ _ _ _ rfl, rfl⟩

/-- decoys only: `OpensNothing` holds and the error is returned -/
example :
    OpensNothing toyE (persistentFor toyE [[11], [22]] [7, 7] [1, 2] [5]) [[100], [101]] ∧
    toyE.loadPersistent (persistentFor toyE [[11], [22]] [7, 7] [1, 2] [5]) [[100], [101]] = .error .config := by
  exact ⟨opensNothing_of_check _ _ _ rfl, rfl⟩

/-- The hypothesis `OnlyKey` is needed: with an AEAD that opens anything (no integrity), a decoy
    placed first makes the loop return a wrong key. -/
def leakyE : SEcies := { toyE with unwrap := fun k c => some (c.drop k.length ++ k) }

example :
    leakyE.loadPersistent (persistentFor leakyE [[11]] [7, 7] [1, 2] [5]) (([[100]] : List Bytes) ++ [[11]]) ≠ .ok ([7, 7], [1, 2]) := by
  intro h; cases h

example : Stack.fromConfig toyE ⟨some 5, true⟩ [[20], [31]] ⟨[7, 7], [1, 2], [5]⟩ =
    .ok ⟨encHeader 3 (some ⟨[14], [[25, 7, 7], [36, 7, 7]], [1, 2]⟩), [7, 7], [1, 2]⟩ := rfl

end Examples

end MlaModel.C07

/-
  C14 over the writer stack — after a flush, what was appended so far survives a cut of the archive
  file.

  Setting: `ops = pre ++ .flush :: rest` satisfies the hypotheses of `C05.archive_mono_file`;
  `dest := (Stack.run P H C K cfg cutTop cutComp ops).dest` are the bytes of the archive file after
  the header, `destF := (Stack.run … (pre ++ [.flush])).dest` the bytes that had reached the
  destination when the `flush()` call returned, `F := destF.length`.

    * `flush_point_prefix` : `destF <+: dest` (same configuration, same cuts of the layers' output
        into `write_all` calls — cuts are indexed by call number, so the common prefix of calls is
        cut identically).
    * `flush_point_deliver`: from exactly `destF` the fail-safe stack delivers exactly the block
        stream `S` emitted by `pre` — every layer combination; unauthenticated mode, or any mode
        when encryption is off (the mode is then irrelevant).
    * `flush_file`         : for EVERY cut `n ≥ F` of `dest`, repair recovers for every
        `(name, c) ∈ specOf pre` a file `(name, c₂)` with `c <+: c₂` (same conditions on the mode).
    * `flush_file_auth_partial` : authenticated mode, encryption on, compression off, under `NoForge`:
        the honest bound — what is guaranteed at every `n ≥ F` is the repair of the chunks whose tag
        had been emitted at the flush, `S.take (ctr * chunk)` (the open chunk's tag is only written
        by the next write that closes it, or by `finalize`).
-/
import MlaModel.Proofs.C14Stack
namespace MlaModel.C14
open MlaModel

section
variable (P : Params) (H : Bytes → Bytes) (utf8 : Bytes → Bool) (pre rest : List Op)
  (hH : ∀ b, (H b).length = hashLen) (hwf : ∀ op ∈ pre ++ .flush :: rest, op.WF utf8)
  (hacc : AllAccepted P H (pre ++ .flush :: rest))
  (hfin : (pre ++ .flush :: rest).getLast? = some .finalize)
  (hlen : (pre ++ .flush :: rest).length < U64)
  (hpos : (Writer.run P H (pre ++ .flush :: rest)).2.2.length < U64)
  (C : EncPrims) (K : Codec) (hK : K.Laws) (hTag : ∀ i c, (C.tag i c).length = P.tagLen)

/-- the block stream is unchanged by the flush -/
theorem runFrom_snoc_flush (s : WState) :
    Writer.runFrom P H s (pre ++ [.flush]) =
      ((Writer.runFrom P H s pre).1, (Writer.runFrom P H s pre).2.1 ++ [.ok],
       (Writer.runFrom P H s pre).2.2) := by
  rw [runFrom_append]
  simp [Writer.runFrom, C07.step_flush]

include hacc hfin in
/-- the calls that reach the lowest layer up to the flush are a prefix of those of the whole run,
    and the pipeline is not finalized at the flush -/
theorem lowActs_flush_prefix (cfg : StackCfg) (cutTop cutComp : Cut) :
    (Stack.lowActs P H K cfg cutTop cutComp (pre ++ [.flush])).2 = false ∧
    ∃ tail, (Stack.lowActs P H K cfg cutTop cutComp (pre ++ .flush :: rest)).1 =
      (Stack.lowActs P H K cfg cutTop cutComp (pre ++ [.flush])).1 ++ tail := by
  have hnf := not_finalized_at_flush P H pre rest hacc hfin
  have ht2 : (Stack.topActs P H cutTop 0 WState.init (pre ++ [.flush])).2 = false := by
    rw [C07.topActs_fin P H cutTop _ 0 WState.init rfl, runFrom_snoc_flush]
    exact hnf
  have hops : pre ++ .flush :: rest = (pre ++ [.flush]) ++ rest := by simp
  obtain ⟨tail, ht⟩ := topActs_append P H cutTop (pre ++ [.flush]) rest 0 WState.init
  rw [← hops] at ht
  obtain ⟨lvl, enc⟩ := cfg
  cases lvl with
  | none => exact ⟨ht2, tail, ht⟩
  | some l =>
    refine ⟨ht2, ?_⟩
    simp only [Stack.lowActs]
    rw [ht, ht2, compTrans_append]
    exact ⟨_, rfl⟩

include hacc hfin in
/-- **C14.flush_point_prefix** — the bytes that had reached the destination when `flush()` returned
    are a prefix of the archive file. -/
theorem flush_point_prefix (cfg : StackCfg) (cutTop cutComp : Cut) :
    (Stack.run P H C K cfg cutTop cutComp (pre ++ [.flush])).dest <+:
      (Stack.run P H C K cfg cutTop cutComp (pre ++ .flush :: rest)).dest := by
  obtain ⟨h2, tail, ht⟩ := lowActs_flush_prefix P H pre rest hacc hfin K cfg cutTop cutComp
  simp only [Stack.run]
  rw [ht, h2]
  cases cfg.encrypt with
  | false =>
    simp only [Bool.false_eq_true, if_false]
    rw [LAct.written_append]
    exact List.prefix_append _ _
  | true =>
    simp only [if_true, Stack.encSink, Bool.false_eq_true, if_false, List.append_nil]
    rw [pieces_append]
    exact (encWritePieces_append_prefix P C _ _).trans (List.prefix_append _ _)

include hacc hfin hK hTag in
/-- **C14.flush_point_deliver** — from the destination bytes at the flush the fail-safe stack
    delivers exactly the block stream emitted before the flush. -/
theorem flush_point_deliver (cfg : StackCfg) (cutTop cutComp : Cut) (mode : FsMode)
    (hm : mode = .unauthenticated ∨ cfg.encrypt = false) :
    (failsafeDeliver P C K (LayerCfg.ofStack cfg) mode
      (Stack.run P H C K cfg cutTop cutComp (pre ++ [.flush])).dest).1 =
        (Writer.runFrom P H WState.init pre).2.2 := by
  have hnf := not_finalized_at_flush P H pre rest hacc hfin
  have h2 := (lowActs_flush_prefix P H pre rest hacc hfin K cfg cutTop cutComp).1
  have hw : LAct.written (Stack.topActs P H cutTop 0 WState.init (pre ++ [.flush])).1 =
      (Writer.runFrom P H WState.init pre).2.2 := by
    rw [C07.topActs_written, runFrom_snoc_flush]
  have hw' : LAct.written (Stack.topActs P H cutTop 0 WState.init pre).1 =
      (Writer.runFrom P H WState.init pre).2.2 := C07.topActs_written P H cutTop pre 0 WState.init
  have hsn := topActs_snoc_flush P H cutTop pre 0 WState.init hnf
  obtain ⟨lvl, enc⟩ := cfg
  cases lvl with
  | none =>
    cases enc with
    | false =>
      simp only [LayerCfg.ofStack, failsafeDeliver, Stack.run, Stack.lowActs, Bool.false_eq_true,
        if_false]
      exact hw
    | true =>
      have hmode : mode = .unauthenticated := by simpa using hm
      subst hmode
      simp only [Stack.lowActs] at h2
      simp only [LayerCfg.ofStack, failsafeDeliver, Stack.run, Stack.lowActs, if_true, fsDec,
        Stack.encSink, h2, Bool.false_eq_true, if_false, List.append_nil]
      exact enc_unauth P C hTag _ _ (by rw [C07.pieces_flatten, hw])
  | some l =>
    have hcw : LAct.written (Stack.compTrans P K cutComp 0 (CW.init K l)
        (Stack.topActs P H cutTop 0 WState.init (pre ++ [.flush])).1 false) =
        (compRun P K l ((Stack.topActs P H cutTop 0 WState.init pre).1 ++ [.flush])).2 := by
      rw [C07.compTrans_written, hsn]
      simp [compRun]
    simp only [Stack.lowActs] at h2
    cases enc with
    | false =>
      simp only [LayerCfg.ofStack, failsafeDeliver, Stack.run, Stack.lowActs, Bool.false_eq_true,
        if_false, h2, fsDecompress]
      rw [hcw, ← hw']
      exact comp_flush P K hK l _
    | true =>
      have hmode : mode = .unauthenticated := by simpa using hm
      subst hmode
      simp only [LayerCfg.ofStack, failsafeDeliver, Stack.run, Stack.lowActs, if_true, fsDec,
        Stack.encSink, h2, Bool.false_eq_true, if_false, List.append_nil, fsDecompress]
      rw [← hw']
      exact comp_enc_flush P K hK l _ C hTag _ (by rw [C07.pieces_flatten, hcw])

include hH hwf hacc hfin hlen hpos in
/-- repair of the block stream emitted before the flush, whatever the end condition reported by the
    layer below -/
theorem repair_flushed (endErr : Bool) :
    specOf (Repair.convert P H utf8 (Writer.runFrom P H WState.init pre).2.2 endErr).ops =
      specOf pre := by
  have hpre := (flushed_prefix P H pre rest).length_le
  have hacc' : ∀ r ∈ (Writer.runFrom P H WState.init pre).2.1, r.isOk = true := by
    intro r hr
    apply hacc
    unfold Writer.run
    rw [runFrom_append]
    exact List.mem_append_left _ hr
  exact (repair_prefix P H utf8 pre hH (fun op hop => hwf op (List.mem_append_left _ hop)) hacc'
    (not_finalized_at_flush P H pre rest hacc hfin)
    (by simp only [List.length_append] at hlen; omega) (by omega) endErr).2.2.2.2.1

include hH hwf hacc hfin hlen hpos hK hTag in
/-- **C14.flush_file** — after a flush, what was appended so far survives a cut of the archive file:
    for every cut at or after the point reached by the flush, repair (unauthenticated fail-safe
    reading; any mode when encryption is off) recovers, for every file, at least the bytes appended
    to it before the flush. -/
theorem flush_file (cfg : StackCfg) (cutTop cutComp : Cut) (mode : FsMode)
    (hm : mode = .unauthenticated ∨ cfg.encrypt = false) (n : Nat)
    (hn : (Stack.run P H C K cfg cutTop cutComp (pre ++ [.flush])).dest.length ≤ n) :
    let dest := (Stack.run P H C K cfg cutTop cutComp (pre ++ .flush :: rest)).dest
    let dl := failsafeDeliver P C K (LayerCfg.ofStack cfg) mode (dest.take n)
    ∀ name c, (name, c) ∈ specOf pre →
      ∃ c₂, (name, c₂) ∈ specOf (Repair.convert P H utf8 dl.1 dl.2).ops ∧ c <+: c₂ := by
  intro dest dl name c hc
  have hpf := flush_point_prefix P H pre rest hacc hfin C K cfg cutTop cutComp
  have htake : (Stack.run P H C K cfg cutTop cutComp (pre ++ .flush :: rest)).dest.take
      (Stack.run P H C K cfg cutTop cutComp (pre ++ [.flush])).dest.length =
      (Stack.run P H C K cfg cutTop cutComp (pre ++ [.flush])).dest :=
    (List.prefix_iff_eq_take.1 hpf).symm
  have hmono := C05.archive_mono_file P H utf8 _ hH hwf hacc hfin hlen hpos C K hK hTag cfg cutTop
    cutComp mode _ n hn (by
      intro h1 h2
      rcases hm with h | h
      · rw [h] at h1; cases h1
      · rw [h] at h2; cases h2) name c
  apply hmono
  rw [htake, flush_point_deliver P H pre rest hacc hfin C K hK hTag cfg cutTop cutComp mode hm,
    repair_flushed P H utf8 pre rest hH hwf hacc hfin hlen hpos]
  exact hc

include hH hwf hacc hfin hlen hpos hK hTag in
/-- **C14.flush_file_auth_partial** — authenticated fail-safe reading of an encrypted, not compressed
    archive: for every cut at or after the flush point, repair recovers at least what repair of the
    chunks whose tag had been emitted at the flush recovers (`ctr` chunks of `chunk` bytes of the
    block stream `S` emitted before the flush); the open chunk — fewer than `chunk` bytes — is only
    authenticated by the tag a later write, or `finalize`, emits.  MISSING: the same bound with
    compression under encryption (it would be about `fsDecomp` of a prefix of the compressed
    stream). -/
theorem flush_file_auth_partial (cutTop cutComp : Cut) (n : Nat)
    (hn : (Stack.run P H C K ⟨none, true⟩ cutTop cutComp (pre ++ [.flush])).dest.length ≤ n)
    (hN : EncFS.NoForge P C (Stack.inner P H K ⟨none, true⟩ cutTop (pre ++ .flush :: rest))) :
    let dest := (Stack.run P H C K ⟨none, true⟩ cutTop cutComp (pre ++ .flush :: rest)).dest
    let dl := failsafeDeliver P C K (LayerCfg.ofStack ⟨none, true⟩) .authenticated (dest.take n)
    let S := (Writer.runFrom P H WState.init pre).2.2
    let ctr := (encWritePieces P C (LAct.pieces
      (Stack.topActs P H cutTop 0 WState.init (pre ++ [.flush])).1)).1.ctr
    ∀ name c, (name, c) ∈ specOf (Repair.convert P H utf8 (S.take (ctr * P.chunk)) false).ops →
      ∃ c₂, (name, c₂) ∈ specOf (Repair.convert P H utf8 dl.1 dl.2).ops ∧ c <+: c₂ := by
  intro dest dl S ctr name c hc
  have hpf := flush_point_prefix P H pre rest hacc hfin C K ⟨none, true⟩ cutTop cutComp
  have htake : (Stack.run P H C K ⟨none, true⟩ cutTop cutComp (pre ++ .flush :: rest)).dest.take
      (Stack.run P H C K ⟨none, true⟩ cutTop cutComp (pre ++ [.flush])).dest.length =
      (Stack.run P H C K ⟨none, true⟩ cutTop cutComp (pre ++ [.flush])).dest :=
    (List.prefix_iff_eq_take.1 hpf).symm
  have h2 := (lowActs_flush_prefix P H pre rest hacc hfin K ⟨none, true⟩ cutTop cutComp).1
  simp only [Stack.lowActs] at h2
  have hw : (LAct.pieces (Stack.topActs P H cutTop 0 WState.init (pre ++ [.flush])).1).flatten =
      (Writer.runFrom P H WState.init pre).2.2 := by
    rw [C07.pieces_flatten, C07.topActs_written, runFrom_snoc_flush]
  obtain ⟨c', hc', hcc'⟩ := (enc_auth_repair P H utf8 pre rest hH hwf hacc hfin hlen hpos C hTag _ hw).1
    name c hc
  have hmono := C05.archive_mono_file P H utf8 _ hH hwf hacc hfin hlen hpos C K hK hTag ⟨none, true⟩
    cutTop cutComp .authenticated _ n hn (fun _ _ => hN) name c'
  obtain ⟨c₂, hc₂, hcc₂⟩ := hmono (by
    rw [htake]
    simp only [LayerCfg.ofStack, failsafeDeliver, Stack.run, Stack.lowActs, if_true, fsDec,
      Stack.encSink, h2, Bool.false_eq_true, if_false, List.append_nil]
    exact hc')
  exact ⟨c₂, hc₂, hcc'.trans hcc₂⟩

end

/-! ### Non-vacuity: the example ops of C01 (`exPre ++ .flush :: exRest`) through the real stack -/

section examples
open C01 C05

/-- bytes at the destination when the flush returns, per configuration (whole-piece cuts) -/
def exDestF (cfg : StackCfg) : Bytes :=
  (Stack.run EncFS.Pt exH EncFS.Ct Codec.stored cfg Cut.whole Cut.whole (exPre ++ [.flush])).dest

set_option maxRecDepth 100000 in
/-- the flush points of the four configurations (bodies: 427, 2139, 899, 4499 bytes) -/
example : (exDestF ⟨none, false⟩).length = 210 ∧ (exDestF ⟨none, true⟩).length = 1042 ∧
    (exDestF ⟨some 5, false⟩).length = 335 ∧ (exDestF ⟨some 5, true⟩).length = 1663 := by decide

set_option maxRecDepth 100000 in
example : exDestF ⟨some 5, true⟩ <+: exDest ⟨some 5, true⟩ := by decide

set_option maxRecDepth 100000 in
/-- evaluated at the flush point, compression under encryption, unauthenticated: everything appended
    before the flush (`a` still open) -/
example : exRepair ⟨some 5, true⟩ .unauthenticated 1663 =
    ([([97], [1, 2, 7]), ([98], [9]), ([99], [5, 6])], [[97]], .errNextBlock .io) := by decide

set_option maxRecDepth 100000 in
/-- evaluated at the flush point, encryption only, authenticated: the open chunk is withheld (here it
    holds the `end` block of `b`, which is reported unfinished) -/
example : exRepair ⟨none, true⟩ .authenticated 1042 =
    ([([97], [1, 2, 7]), ([98], [9]), ([99], [5, 6])], [[97], [98]], .eofNextBlock) := by decide

/-- the theorems apply (production constants, any cipher, any cuts, the stored-only codec) -/
example (C : EncPrims) (hTag : ∀ i c, (C.tag i c).length = Params.prod.tagLen) (cfg : StackCfg)
    (cutTop cutComp : Cut) (n : Nat)
    (hn : (Stack.run Params.prod exH C Codec.stored cfg cutTop cutComp (exPre ++ [.flush])).dest.length ≤ n) :
    let dest := (Stack.run Params.prod exH C Codec.stored cfg cutTop cutComp exOps).dest
    let dl := failsafeDeliver Params.prod C Codec.stored (LayerCfg.ofStack cfg) .unauthenticated (dest.take n)
    ∀ name c, (name, c) ∈ [(([97] : Bytes), ([1, 2, 7] : Bytes)), ([98], [9]), ([99], [5, 6])] →
      ∃ c₂, (name, c₂) ∈ specOf (Repair.convert Params.prod exH (fun _ => true) dl.1 dl.2).ops ∧ c <+: c₂ :=
  flush_file Params.prod exH (fun _ => true) exPre exRest exH_len exOps_wf exOps_accepted
    exOps_last exOps_len exOps_pos C Codec.stored Codec.stored_laws hTag cfg cutTop cutComp
    .unauthenticated (Or.inl rfl) n hn

example (C : EncPrims) (cfg : StackCfg) (cutTop cutComp : Cut) :
    (Stack.run Params.prod exH C Codec.stored cfg cutTop cutComp (exPre ++ [.flush])).dest <+:
      (Stack.run Params.prod exH C Codec.stored cfg cutTop cutComp exOps).dest :=
  flush_point_prefix Params.prod exH exPre exRest exOps_accepted exOps_last C Codec.stored cfg cutTop cutComp

/-- the authenticated bound applies (its `NoForge` hypothesis is the one of `C05.archive_mono_file`) -/
example (C : EncPrims) (hTag : ∀ i c, (C.tag i c).length = Params.prod.tagLen) (cutTop cutComp : Cut)
    (hN : EncFS.NoForge Params.prod C (Stack.inner Params.prod exH Codec.stored ⟨none, true⟩ cutTop exOps)) :=
  flush_file_auth_partial Params.prod exH (fun _ => true) exPre exRest exH_len exOps_wf exOps_accepted
    exOps_last exOps_len exOps_pos C Codec.stored Codec.stored_laws hTag cutTop cutComp

end examples

end MlaModel.C14

#print axioms MlaModel.C14.flush_point_prefix
#print axioms MlaModel.C14.flush_point_deliver
#print axioms MlaModel.C14.flush_file
#print axioms MlaModel.C14.flush_file_auth_partial

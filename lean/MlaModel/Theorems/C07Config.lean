/-
  C07 / C06, the writer configuration as a builder (mla/src/config.rs): whatever calls are made, in
  whatever order — layers switched on, off, on again, set at once; levels accepted or refused;
  recipients added in one call or many —
    * the secrets are the ones drawn when the configuration was constructed (`builder_secrets`):
      no builder call replaces, resets or re-derives them;
    * the recipients are ALL the keys passed to `add_public_keys`, in order (`builder_recipients`);
    * the layer set is the result of the bit operations, in particular switching a layer off and
      on again restores it (`off_on`), and `set_layers` forgets what was before (`set_layers_last`).
-/
import MlaModel.Config
namespace MlaModel.C07
open MlaModel

theorem step_secrets (c c' : WCfg) (op : BOp) (h : c.step op = .ok c') :
    c'.key = c.key ∧ c'.nonce = c.nonce := by
  cases op <;> simp only [WCfg.step] at h
  all_goals first
    | (injection h with h; subst h; exact ⟨rfl, rfl⟩)
    | (split at h
       · cases h
       · injection h with h; subst h; exact ⟨rfl, rfl⟩)

/-- **C07.builder_secrets** — key and nonce after ANY call list are the ones of the construction. -/
theorem builder_secrets (c : WCfg) (ops : List BOp) :
    (c.run ops).key = c.key ∧ (c.run ops).nonce = c.nonce := by
  induction ops generalizing c with
  | nil => exact ⟨rfl, rfl⟩
  | cons op ops ih =>
    simp only [WCfg.run]
    cases h : c.step op with
    | error e => exact ih c
    | ok c' =>
      obtain ⟨h1, h2⟩ := step_secrets c c' op h
      obtain ⟨i1, i2⟩ := ih c'
      exact ⟨i1.trans h1, i2.trans h2⟩

theorem step_pubs (c c' : WCfg) (op : BOp) (h : c.step op = .ok c') : c'.pubs = c.pubs ++ op.keys := by
  cases op <;> simp only [WCfg.step] at h
  all_goals first
    | (injection h with h; subst h; simp [BOp.keys])
    | (split at h
       · cases h
       · injection h with h; subst h; simp [BOp.keys])

theorem step_error_keys (c : WCfg) (op : BOp) (e : Err) (h : c.step op = .error e) : op.keys = [] := by
  cases op <;> simp [WCfg.step] at h <;> simp [BOp.keys]

/-- **C07.builder_recipients** — the recipients are all the keys of all `add_public_keys` calls, in
    order, after the ones already there: adding never replaces. -/
theorem builder_recipients (c : WCfg) (ops : List BOp) :
    (c.run ops).pubs = c.pubs ++ (ops.map BOp.keys).flatten := by
  induction ops generalizing c with
  | nil => simp [WCfg.run]
  | cons op ops ih =>
    simp only [WCfg.run, List.map_cons, List.flatten_cons]
    cases h : c.step op with
    | error e => rw [ih c, step_error_keys c op e h]; simp
    | ok c' => rw [ih c', step_pubs c c' op h, List.append_assoc]

/-- switching layers off and on again restores them, whatever else is enabled -/
theorem off_on (c : WCfg) (l : Nat) (hl : c.layers &&& (l &&& 3) = l &&& 3) (hc : c.layers < 4) :
    (c.run [.disable l, .enable l]).layers = c.layers := by
  simp only [WCfg.run, WCfg.step]
  have hm : l &&& 3 < 4 := Nat.lt_of_le_of_lt Nat.and_le_right (by decide)
  have key : ∀ x < 4, ∀ m < 4, x &&& m = m → x &&& (3 ^^^ m) ||| m = x := by decide
  exact key _ hc _ hm hl

/-- `set_layers` forgets the layer set that was there -/
theorem set_layers_last (c : WCfg) (l : Nat) (ops : List BOp) (h : ∀ op ∈ ops, ∃ ks n, op = .addKeys ks ∨ op = .level n) :
    (c.run (.setLayers l :: ops)).layers = l &&& 3 := by
  simp only [WCfg.run, WCfg.step]
  generalize hc : ({ c with layers := l &&& 3 } : WCfg) = c0
  have h0 : c0.layers = l &&& 3 := by subst hc; rfl
  clear hc
  induction ops generalizing c0 with
  | nil => simpa [WCfg.run] using h0
  | cons op ops ih =>
    obtain ⟨ks, n, hop | hop⟩ := h op (List.mem_cons_self)
    · subst hop
      simp only [WCfg.run, WCfg.step]
      exact ih (fun o ho => h o (List.mem_cons_of_mem _ ho)) _ h0
    · subst hop
      by_cases hn : 11 < n
      · simp only [WCfg.run, WCfg.step, hn, if_true]
        exact ih (fun o ho => h o (List.mem_cons_of_mem _ ho)) _ h0
      · simp only [WCfg.run, WCfg.step, hn, if_false]
        exact ih (fun o ho => h o (List.mem_cons_of_mem _ ho)) _ h0

/-- the calls that do not ask for encryption to be switched off: everything but `disable_layer` /
    `set_layers` of a set without ENCRYPT (in particular every `with_compression_level` and every
    `add_public_keys`) -/
def _root_.MlaModel.BOp.keepsEncrypt : BOp → Bool
  | .disable l => l &&& 1 = 0
  | .setLayers l => l &&& 1 = 1
  | _ => true

theorem and3_and1 (l : Nat) : (l &&& 3) &&& 1 = l &&& 1 := by
  rw [Nat.and_assoc]; rfl

/-- **C07.encrypt_kept.**  Once encryption is enabled, no sequence of builder calls other than an explicit
    `disable_layer(ENCRYPT)` / `set_layers` without ENCRYPT switches it off — whatever compression levels
    (accepted or refused) and recipient lists are given in between.  (The harness oracle `C07/plaintext`
    tracks the same thing on the real builder.) -/
theorem encrypt_kept (ops : List BOp) : ∀ c : WCfg, c.layers < 4 → c.layers &&& 1 = 1 →
    (∀ op ∈ ops, op.keepsEncrypt = true) → (c.run ops).layers &&& 1 = 1 ∧ (c.run ops).layers < 4 := by
  have kE : ∀ x < 4, ∀ m < 4, x &&& 1 = 1 → (x ||| m) &&& 1 = 1 ∧ (x ||| m) < 4 := by decide
  have kD : ∀ x < 4, ∀ m < 4, x &&& 1 = 1 → m &&& 1 = 0 → (x &&& (3 ^^^ m)) &&& 1 = 1 ∧ (x &&& (3 ^^^ m)) < 4 := by decide
  induction ops with
  | nil => intro c hc h1 _; exact ⟨h1, hc⟩
  | cons op ops ih =>
    intro c hc h1 h
    have hop := h op List.mem_cons_self
    have hrest : ∀ o ∈ ops, o.keepsEncrypt = true := fun o ho => h o (List.mem_cons_of_mem _ ho)
    have hm : ∀ l : Nat, l &&& 3 < 4 := fun l => Nat.lt_of_le_of_lt Nat.and_le_right (by decide)
    cases op with
    | enable l =>
      simp only [WCfg.run, WCfg.step]
      obtain ⟨a, b⟩ := kE _ hc _ (hm l) h1
      exact ih _ b a hrest
    | disable l =>
      simp only [WCfg.run, WCfg.step]
      have hl : (l &&& 3) &&& 1 = 0 := by rw [and3_and1]; simpa [BOp.keepsEncrypt] using hop
      obtain ⟨a, b⟩ := kD _ hc _ (hm l) h1 hl
      exact ih _ b a hrest
    | setLayers l =>
      simp only [WCfg.run, WCfg.step]
      have hl : (l &&& 3) &&& 1 = 1 := by rw [and3_and1]; simpa [BOp.keepsEncrypt] using hop
      exact ih _ (hm l) hl hrest
    | level n =>
      by_cases hn : 11 < n
      · simp only [WCfg.run, WCfg.step, hn, if_true]; exact ih _ hc h1 hrest
      · simp only [WCfg.run, WCfg.step, hn, if_false]; exact ih _ hc h1 hrest
    | addKeys ks =>
      simp only [WCfg.run, WCfg.step]; exact ih _ hc h1 hrest

/-- the history of seed C07-g: `new()`, `enable_layer(ENCRYPT)`, `with_compression_level(0)` -/
example : ((WCfg.new [7] [9]).run [.enable 1, .level 0, .addKeys [[1]]]).layers &&& 1 = 1 := by decide

/-- non-vacuity: a history with a refused level, two `add_public_keys` calls and a layer switched off
    and on again -/
example : (WCfg.dflt [7] [9]).run [.level 12, .addKeys [[1]], .disable 1, .level 3, .enable 1, .addKeys [[2], [3]]] =
    ⟨3, 3, [[1], [2], [3]], [7], [9]⟩ := by decide

end MlaModel.C07

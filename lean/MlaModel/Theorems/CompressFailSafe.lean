/-
  Fail-safe laws of the compression layer (`CompressionLayerFailSafeReader`, mla/src/layers/compress.rs),
  stated on its functional specification `fsDecomp` (MlaModel/Compress.lean): during repair the
  compressed blocks are decoded stream after stream from whatever bytes are there, without the sizes
  table.

  For every `Params`, every codec `K` satisfying `Codec.Laws` (nothing else is assumed about the
  codec), every plaintext `p` and blocks `cs` with `IsEncoded P K p cs` (block `k` is the complete
  output of an encoder run that wrote `blockOf P p k`), `body := cs.flatten`:

    * `L3_complete`    : `p <+: (fsDecomp P K fuel (body ++ tail)).1` for every `tail`,
                         `L3_complete_eq` says exactly what follows `p` (the decoding of `tail`),
      `L3_exact`       : `fsDecomp P K fuel body = (p, false)`;
    * `L2_prefix_safe` : `(fsDecomp P K fuel (body.take n)).1 <+: p` — every `n`, every fuel;
    * `L4_mono`        : `n₁ ≤ n₂ → f₁ ≤ f₂ →
                           (fsDecomp P K f₁ (body.take n₁)).1 <+: (fsDecomp P K f₂ (body.take n₂)).1`;
    * `L5_flush`       : after complete blocks and a flush of the open block, everything written is
                         recovered: `(fsDecomp P K fuel (done.flatten ++ cur)).1 = p`.
  Primed versions use the canonical fuel `|input| + 1`; `fsDecomp_fuel_stable` (Proofs) says that any
  larger fuel gives the same result.

  Facts derived from `Codec.Laws` on the way (no extra hypothesis on the codec was needed):
    * a finished stream is never empty (`IsStreamOf.ne_nil`: K5 with `rest = []` against K2 with
      `k = 0`, for the two runs `[]` and `[write [0]]`), so every round of `fsDecomp` consumes a byte
      and the guard `s.length ≤ rest.length` never fires on well-formed input;
    * `(K.decStream []).1 = []` (`decStream_nil`);
    * after a flush the emitted bytes `cur` are either a proper prefix of the finished stream (then
      K2 gives `(out, none, false)`) or the finished stream itself when `efinish` has nothing to add
      (then K5 gives `(out, some [], false)`): `fsDecomp_flush` handles both.
-/
import MlaModel.Proofs.CompressFailSafe
import MlaModel.CodecStored
namespace MlaModel.CompFS
open MlaModel

variable (P : Params) (K : Codec)

/-! ### L3 — completeness -/

/-- **L3, exact form with a tail**: the complete plaintext comes out first; what follows is whatever
    the fail-safe decoder makes of the tail (in an intact archive: of the sizes table). -/
theorem L3_complete_eq (hK : K.Laws) (p : Bytes) (cs : List Bytes) (h : IsEncoded P K p cs)
    (tail : Bytes) (fuel : Nat) (hf : cs.length ≤ fuel) :
    fsDecomp P K fuel (cs.flatten ++ tail) =
      (p ++ (fsDecomp P K (fuel - cs.length) tail).1, (fsDecomp P K (fuel - cs.length) tail).2) := by
  have := fsDecomp_streams hK h.streams fuel hf tail
  rwa [h.blocks_flatten] at this

/-- **L3**: whatever follows the blocks, the complete plaintext is recovered (one unit of fuel per
    block is enough). -/
theorem L3_complete (hK : K.Laws) (p : Bytes) (cs : List Bytes) (h : IsEncoded P K p cs)
    (tail : Bytes) (fuel : Nat) (hf : cs.length ≤ fuel) :
    p <+: (fsDecomp P K fuel (cs.flatten ++ tail)).1 := by
  rw [L3_complete_eq P K hK p cs h tail fuel hf]
  exact List.prefix_append _ _

/-- **L3**, nothing after the blocks: exactly the plaintext, clean end. -/
theorem L3_exact (hK : K.Laws) (p : Bytes) (cs : List Bytes) (h : IsEncoded P K p cs)
    (fuel : Nat) (hf : cs.length < fuel) : fsDecomp P K fuel cs.flatten = (p, false) := by
  have := fsDecomp_streams_exact hK h.streams fuel hf
  rwa [h.blocks_flatten] at this

/-- the number of blocks is at most the number of compressed bytes: `|input| + 1` fuel suffices -/
theorem IsEncoded.length_le (hK : K.Laws) (p : Bytes) (cs : List Bytes) (h : IsEncoded P K p cs) :
    cs.length ≤ cs.flatten.length :=
  h.streams.length_le_flatten hK

theorem L3_complete' (hK : K.Laws) (p : Bytes) (cs : List Bytes) (h : IsEncoded P K p cs)
    (tail : Bytes) :
    p <+: (fsDecomp P K ((cs.flatten ++ tail).length + 1) (cs.flatten ++ tail)).1 := by
  apply L3_complete P K hK p cs h
  have := IsEncoded.length_le P K hK p cs h
  rw [List.length_append]; omega

theorem L3_exact' (hK : K.Laws) (p : Bytes) (cs : List Bytes) (h : IsEncoded P K p cs) :
    fsDecomp P K (cs.flatten.length + 1) cs.flatten = (p, false) := by
  apply L3_exact P K hK p cs h
  have := IsEncoded.length_le P K hK p cs h
  omega

/-! ### L2 — prefix-safety -/

/-- **L2**: from any prefix of the compressed blocks, with any fuel, only a prefix of the plaintext
    comes out (for `n ≥ body.length` the input is the whole body). -/
theorem L2_prefix_safe (hK : K.Laws) (p : Bytes) (cs : List Bytes) (h : IsEncoded P K p cs)
    (fuel n : Nat) : (fsDecomp P K fuel (cs.flatten.take n)).1 <+: p := by
  have := fsDecomp_streams_prefix hK h.streams fuel n
  rwa [h.blocks_flatten] at this

theorem L2_prefix_safe' (hK : K.Laws) (p : Bytes) (cs : List Bytes) (h : IsEncoded P K p cs)
    (n : Nat) (_hn : n ≤ cs.flatten.length) :
    (fsDecomp P K ((cs.flatten.take n).length + 1) (cs.flatten.take n)).1 <+: p :=
  L2_prefix_safe P K hK p cs h _ n

/-! ### L4 — monotonicity -/

/-- **L4**: more input (and at least as much fuel) never yields less output. -/
theorem L4_mono (hK : K.Laws) (p : Bytes) (cs : List Bytes) (h : IsEncoded P K p cs)
    (f₁ f₂ n₁ n₂ : Nat) (hf : f₁ ≤ f₂) (hn : n₁ ≤ n₂) :
    (fsDecomp P K f₁ (cs.flatten.take n₁)).1 <+: (fsDecomp P K f₂ (cs.flatten.take n₂)).1 :=
  (fsDecomp_fuel_mono P K f₁ f₂ hf _).trans (fsDecomp_streams_mono hK h.streams f₂ n₁ n₂ hn)

theorem L4_mono' (hK : K.Laws) (p : Bytes) (cs : List Bytes) (h : IsEncoded P K p cs)
    (n₁ n₂ : Nat) (hn : n₁ ≤ n₂) (_hn₂ : n₂ ≤ cs.flatten.length) :
    (fsDecomp P K ((cs.flatten.take n₁).length + 1) (cs.flatten.take n₁)).1 <+:
      (fsDecomp P K ((cs.flatten.take n₂).length + 1) (cs.flatten.take n₂)).1 := by
  apply L4_mono P K hK p cs h _ _ _ _ _ hn
  simp only [List.length_take]; omega

/-! ### L5 — flush -/

/-- **L5**: `done` are the finished streams of blocks `0 .. done.length-1` of `p`, the open block
    has received the rest of `p` (at most a block) and was flushed; `cur` is what its encoder has
    emitted so far.  Then the fail-safe decoder recovers all of `p` from `done.flatten ++ cur`. -/
theorem L5_flush (hK : K.Laws) (p : Bytes) (done : List Bytes) (lvl : Nat) (acts : List EAct)
    (hdone : ∀ k (h : k < done.length), ∃ lvl acts, EAct.written acts = blockOf P p k ∧
      done[k] = (K.runActs (K.einit lvl) acts).2 ++ K.efinish (K.runActs (K.einit lvl) acts).1)
    (hrest : EAct.written acts = p.drop (done.length * P.block))
    (hle : (EAct.written acts).length ≤ P.block)
    (fuel : Nat) (hf : done.length < fuel) :
    (fsDecomp P K fuel (done.flatten ++ (K.runActs (K.einit lvl) (acts ++ [.flush])).2)).1 = p := by
  have hS : Streams P K ((List.range done.length).map (blockOf P p)) done :=
    streams_of_blocks hdone
  rw [fsDecomp_streams hK hS fuel (by omega), blocks_flatten]
  obtain ⟨g, hg⟩ : ∃ g, fuel - done.length = g + 1 := ⟨fuel - done.length - 1, by omega⟩
  simp only [hg]
  rw [fsDecomp_flush hK lvl acts hle g, hrest, List.take_append_drop]

theorem L5_flush' (hK : K.Laws) (p : Bytes) (done : List Bytes) (lvl : Nat) (acts : List EAct)
    (hdone : ∀ k (h : k < done.length), ∃ lvl acts, EAct.written acts = blockOf P p k ∧
      done[k] = (K.runActs (K.einit lvl) acts).2 ++ K.efinish (K.runActs (K.einit lvl) acts).1)
    (hrest : EAct.written acts = p.drop (done.length * P.block))
    (hle : (EAct.written acts).length ≤ P.block) :
    let out := done.flatten ++ (K.runActs (K.einit lvl) (acts ++ [.flush])).2
    (fsDecomp P K (out.length + 1) out).1 = p := by
  intro out
  apply L5_flush P K hK p done lvl acts hdone hrest hle
  have hS : Streams P K ((List.range done.length).map (blockOf P p)) done :=
    streams_of_blocks hdone
  have := hS.length_le_flatten hK
  simp only [out, List.length_append]; omega

/-! ### Non-vacuity

`Codec.toy` (Proofs: every byte `x` becomes `[1, x]`, a stream ends with `[0]`) satisfies
`Codec.Laws` (`Codec.toy_laws`), so the hypotheses of all the theorems are jointly satisfiable; the
concrete values are checked by evaluation as well.  The same shapes are evaluated on the stored-only
brotli codec `Codec.stored` (its laws are proved elsewhere; nothing here depends on them). -/

section examples

/-- blocks of 2 bytes -/
def exP : Params := Params.scaled 5 3 2 3 7 (by decide)

/-- finished stream of one `write` -/
def exFin (K : Codec) (b : Bytes) : Bytes :=
  (K.runActs (K.einit 0) [.write b]).2 ++ K.efinish (K.runActs (K.einit 0) [.write b]).1

theorem exEncoded (K : Codec) : IsEncoded exP K [1, 2, 3] [exFin K [1, 2], exFin K [3]] where
  count := by
    show 2 = ([1, 2, 3].length + exP.block - 1) / exP.block
    decide
  blocks := by
    intro k h
    match k, h with
    | 0, _ => exact ⟨0, [.write [1, 2]], by decide, rfl⟩
    | 1, _ => exact ⟨0, [.write [3]], by decide, rfl⟩

-- toy codec: [1,2] ↦ [1,1,1,2,0], [3] ↦ [1,3,0]
example : [exFin Codec.toy [1, 2], exFin Codec.toy [3]].flatten = [1, 1, 1, 2, 0, 1, 3, 0] := by decide

example : fsDecomp exP Codec.toy 9 [1, 1, 1, 2, 0, 1, 3, 0] = ([1, 2, 3], false) :=
  L3_exact' exP Codec.toy Codec.toy_laws _ _ (exEncoded Codec.toy)

example : fsDecomp exP Codec.toy 9 [1, 1, 1, 2, 0, 1, 3, 0] = ([1, 2, 3], false) := by decide

example (tail : Bytes) (fuel : Nat) (hf : 2 ≤ fuel) :
    [1, 2, 3] <+: (fsDecomp exP Codec.toy fuel ([1, 1, 1, 2, 0, 1, 3, 0] ++ tail)).1 :=
  L3_complete exP Codec.toy Codec.toy_laws _ _ (exEncoded Codec.toy) tail fuel hf

-- a tail that is not a stream: `p` comes first, then an error
example : fsDecomp exP Codec.toy 11 ([1, 1, 1, 2, 0, 1, 3, 0] ++ [7, 7]) = ([1, 2, 3], true) := by
  decide

example (n fuel : Nat) :
    (fsDecomp exP Codec.toy fuel (([1, 1, 1, 2, 0, 1, 3, 0] : Bytes).take n)).1 <+: [1, 2, 3] :=
  L2_prefix_safe exP Codec.toy Codec.toy_laws _ _ (exEncoded Codec.toy) fuel n

example : (List.range 9).map (fun n =>
      (fsDecomp exP Codec.toy (n + 1) (([1, 1, 1, 2, 0, 1, 3, 0] : Bytes).take n)).1) =
    [[], [], [1], [1], [1, 2], [1, 2], [1, 2], [1, 2, 3], [1, 2, 3]] := by decide

example (n₁ n₂ : Nat) (h : n₁ ≤ n₂) :
    (fsDecomp exP Codec.toy (n₁ + 1) (([1, 1, 1, 2, 0, 1, 3, 0] : Bytes).take n₁)).1 <+:
      (fsDecomp exP Codec.toy (n₂ + 1) (([1, 1, 1, 2, 0, 1, 3, 0] : Bytes).take n₂)).1 :=
  L4_mono exP Codec.toy Codec.toy_laws _ _ (exEncoded Codec.toy) _ _ n₁ n₂ (by omega) h

-- L5: block 0 finished, block 1 = `write [3]; flush` (the terminator `0` is not there yet)
example : (fsDecomp exP Codec.toy 8 ([1, 1, 1, 2, 0] ++ [1, 3])).1 = [1, 2, 3] :=
  L5_flush' exP Codec.toy Codec.toy_laws [1, 2, 3] [exFin Codec.toy [1, 2]] 0 [.write [3]]
    (by intro k h
        match k, h with
        | 0, _ => exact ⟨0, [.write [1, 2]], by decide, rfl⟩)
    (by decide) (by decide)

example : fsDecomp exP Codec.toy 8 ([1, 1, 1, 2, 0] ++ [1, 3]) = ([1, 2, 3], true) := by decide

-- the same shapes on the stored-only brotli codec
example : [exFin Codec.stored [1, 2], exFin Codec.stored [3]].flatten =
    [16, 0, 16, 1, 2, 3, 0, 0, 16, 3, 3] := by decide

example : fsDecomp exP Codec.stored 12 [16, 0, 16, 1, 2, 3, 0, 0, 16, 3, 3] = ([1, 2, 3], false) := by
  decide

example : (List.range 12).map (fun n =>
      (fsDecomp exP Codec.stored (n + 1) (([16, 0, 16, 1, 2, 3, 0, 0, 16, 3, 3] : Bytes).take n)).1) =
    [[], [], [], [], [1], [1, 2], [1, 2], [1, 2], [1, 2], [1, 2], [1, 2, 3], [1, 2, 3]] := by decide

-- followed by the sizes table: the plaintext is complete, the table is not a stream
example : fsDecomp exP Codec.stored 40
    ([16, 0, 16, 1, 2, 3, 0, 0, 16, 3, 3] ++ encSizes ⟨[6, 5], 1⟩) = ([1, 2, 3], true) := by decide

-- flush of the open block (`flush` emits nothing for this codec: the meta-block is already complete)
example : (fsDecomp exP Codec.stored 11
    ([16, 0, 16, 1, 2, 3] ++ (Codec.stored.runActs (Codec.stored.einit 0) [.write [3], .flush]).2)).1 =
    [1, 2, 3] := by decide

end examples

end MlaModel.CompFS

/-
  C18 — "on any other input the parsers return an error", the algorithm identifier part:
  whatever leniency the container reader has (long-form lengths, high tag numbers, bytes after the
  outer SEQUENCE), an input the DER entry points accept CONTAINS the content bytes of the X25519 or of
  the Ed25519 object identifier.  This is the oracle `C18/other-input-refused` of the harness (an
  accepted input without `2b 65 6e` / `2b 65 70` is a violation), proved here for the model.
-/
import MlaModel.Keys
namespace MlaModel.C18
open MlaModel.Keys

theorem takeN_eq : ∀ (n : Nat) (b a t : Bytes), takeN n b = some (a, t) → b = a ++ t
  | 0, b, a, t, h => by simp only [takeN, Option.some.injEq, Prod.mk.injEq] at h; rw [← h.1, ← h.2]; rfl
  | n + 1, [], a, t, h => by simp [takeN] at h
  | n + 1, x :: r, a, t, h => by
    simp only [takeN] at h
    split at h
    · rename_i a' t' he
      simp only [Option.some.injEq, Prod.mk.injEq] at h
      rw [← h.1, ← h.2, takeN_eq n r a' t' he]; rfl
    · simp at h

theorem readTagLong_suffix : ∀ (f acc : Nat) (b : Bytes) (v : Nat) (r : Bytes),
    readTagLong f acc b = some (v, r) → ∃ p, b = p ++ r
  | 0, _, _, _, _, h => by simp [readTagLong] at h
  | _ + 1, _, [], _, _, h => by simp [readTagLong] at h
  | f + 1, acc, x :: rest, v, r, h => by
    simp only [readTagLong] at h
    split at h
    · simp only [Option.some.injEq, Prod.mk.injEq] at h
      exact ⟨[x], by rw [← h.2]; rfl⟩
    · obtain ⟨p, hp⟩ := readTagLong_suffix f _ rest v r h
      exact ⟨x :: p, by rw [hp]; rfl⟩

theorem readHdr_suffix (b : Bytes) (h : Hdr) (r : Bytes) (hh : readHdr b = some (h, r)) : ∃ p, b = p ++ r := by
  cases b with
  | nil => simp [readHdr] at hh
  | cons b0 r0 =>
    simp only [readHdr] at hh
    split at hh
    · simp at hh
    · rename_i tag r1 htr
      have h1 : ∃ p1, r0 = p1 ++ r1 := by
        split at htr
        · exact readTagLong_suffix _ _ _ _ _ htr
        · simp only [Option.some.injEq, Prod.mk.injEq] at htr; exact ⟨[], by rw [← htr.2]; rfl⟩
      obtain ⟨p1, hp1⟩ := h1
      cases r1 with
      | nil => simp at hh
      | cons l0 r2 =>
        simp only at hh
        split at hh
        · simp only [Option.some.injEq, Prod.mk.injEq] at hh
          exact ⟨b0 :: (p1 ++ [l0]), by rw [hp1, ← hh.2]; simp⟩
        · split at hh
          · simp at hh
          · split at hh
            · simp at hh
            · split at hh
              · simp at hh
              · rename_i lb r3 ht
                have e3 := takeN_eq _ _ _ _ ht
                split at hh
                · simp at hh
                · simp only [Option.some.injEq, Prod.mk.injEq] at hh
                  exact ⟨b0 :: (p1 ++ l0 :: lb), by rw [hp1, e3, ← hh.2]; simp⟩

theorem readTlv_split (tag : Nat) (b : Bytes) (h : Hdr) (c rest : Bytes)
    (ht : readTlv tag b = some (h, c, rest)) : ∃ p, b = p ++ c ++ rest := by
  simp only [readTlv] at ht
  split at ht
  · simp at ht
  · rename_i h' r hr
    obtain ⟨p, hp⟩ := readHdr_suffix b h' r hr
    split at ht
    · simp at ht
    · split at ht
      · simp at ht
      · rename_i c' rest' hn
        simp only [Option.some.injEq, Prod.mk.injEq] at ht
        have := takeN_eq _ _ _ _ hn
        exact ⟨p, by rw [hp, this, ← ht.2.1, ← ht.2.2, List.append_assoc]⟩

theorem infix_of_split {o b p s : Bytes} (h : b = p ++ o ++ s) : o <:+: b := ⟨p, s, h.symm⟩

theorem readAlgId_infix (b oid rest : Bytes) (h : readAlgId b = some (oid, rest)) : oid <:+: b := by
  simp only [readAlgId] at h
  split at h
  · simp at h
  · rename_i hd c rest' h1
    obtain ⟨p, hp⟩ := readTlv_split 16 b hd c rest' h1
    split at h
    · rename_i hd2 oid' h2
      obtain ⟨p2, hp2⟩ := readTlv_split 6 c hd2 oid' [] h2
      simp only [Option.some.injEq, Prod.mk.injEq] at h
      rw [← h.1]
      exact ⟨p ++ p2, rest', by rw [hp, hp2]; simp⟩
    · simp at h

theorem infix_trans' {a b c : Bytes} (h1 : a <:+: b) (h2 : b <:+: c) : a <:+: c := List.IsInfix.trans h1 h2

theorem readPubStruct_infix (b oid d : Bytes) (h : readPubStruct b = some (oid, d)) : oid <:+: b := by
  simp only [readPubStruct] at h
  split at h
  · simp at h
  · rename_i hd c rest h1
    obtain ⟨p, hp⟩ := readTlv_split 16 b hd c rest h1
    have hc : c <:+: b := ⟨p, rest, hp.symm⟩
    split at h
    · simp at h
    · rename_i oid' r1 h2
      have ho := readAlgId_infix c oid' r1 h2
      split at h
      · split at h
        · simp only [Option.some.injEq, Prod.mk.injEq] at h
          rw [← h.1]; exact infix_trans' ho hc
        · simp at h
      · simp at h

theorem readPrivStruct_infix (b oid d : Bytes) (h : readPrivStruct b = some (oid, d)) : oid <:+: b := by
  simp only [readPrivStruct] at h
  split at h
  · simp at h
  · rename_i hd c rest h1
    obtain ⟨p, hp⟩ := readTlv_split 16 b hd c rest h1
    have hc : c <:+: b := ⟨p, rest, hp.symm⟩
    split at h
    · simp at h
    · rename_i hd2 ic r1 h2
      obtain ⟨p2, hp2⟩ := readTlv_split 2 c hd2 ic r1 h2
      have hr1 : r1 <:+: c := ⟨p2 ++ ic, [], by rw [hp2]; simp⟩
      split at h
      · simp at h
      · split at h
        · simp at h
        · rename_i oid' r2 h3
          have ho := readAlgId_infix r1 oid' r2 h3
          split at h
          · simp only [Option.some.injEq, Prod.mk.injEq] at h
            rw [← h.1]; exact infix_trans' ho (infix_trans' hr1 hc)
          · simp at h

variable (P : KPrims)

/-- **C18.accepted_has_oid (public).**  An input the DER public-key reader accepts holds the content
    bytes of 1.3.101.110 or of 1.3.101.112. -/
theorem accepted_has_oid_pub (b k : Bytes) (h : parsePubDer P b = .ok k) : oidX <:+: b ∨ oidEd <:+: b := by
  simp only [parsePubDer] at h
  split at h
  · simp at h
  · rename_i oid d hs
    have ho := readPubStruct_infix b oid d hs
    split at h
    · simp at h
    · split at h
      · rename_i he; right; rw [← he]; exact ho
      · split at h
        · rename_i he; left; rw [← he]; exact ho
        · simp at h

/-- **C18.accepted_has_oid (private).** -/
theorem accepted_has_oid_priv (b k : Bytes) (h : parsePrivDer P b = .ok k) : oidX <:+: b ∨ oidEd <:+: b := by
  simp only [parsePrivDer] at h
  split at h
  · simp at h
  · rename_i oid d hs
    have ho := readPrivStruct_infix b oid d hs
    split at h
    · split at h
      · simp at h
      · split at h
        · rename_i he; right; rw [← he]; exact ho
        · split at h
          · rename_i he; left; rw [← he]; exact ho
          · simp at h
    · simp at h

end MlaModel.C18

/-
  C11 (encryption layer) — `Read + Seek` of the encryption reader behave like `std::io::Cursor` over
  the plaintext (L6), and one-shot decryption of the sealed stream is the identity (L1).

  Statements, for every `Params`, every pair of primitives whose tags have `tagLen` bytes, every
  plaintext `p` whose chunk indices fit in a `u32`, and every inner stream that behaves like a cursor
  over `sealS P C p` (so: the raw layer over a file, or any stack of layers already proved):
    * `EncRd.isCursor` : the reader (`EncR.seekFull` / `EncR.readFull`, MlaModel/Encrypt.lean) with
                         the invariant `EncRd.Inv` (MlaModel/Proofs/EncryptReader.lean) and position
                         `chunkNo * chunk + cpos` satisfies `IsCursor … p`: every seek into `[0, |p|]`
                         (from start, current, end) succeeds and lands on the target, every read
                         returns the bytes of `p` at the position, at least one when not at the end,
                         and no operation errs (in particular: no tag error on an authentic stream).
    * `EncR.init_ok`   : `new` + `initialize` establish the invariant at position 0.
    * `open_seal`      : `openAll (sealS p) = p`.
-/
import MlaModel.Proofs.EncryptReader
namespace MlaModel.C11
open MlaModel

/-- assumptions on the primitives actually used: tags have `tagLen` bytes -/
structure EncPrims.Laws (P : Params) (C : EncPrims) : Prop where
  tagLen : ∀ i c, (C.tag i c).length = P.tagLen

/-- **L6** for the encryption layer: over ANY inner stream that behaves like a cursor over the sealed
    stream `sealS P C p`, the encryption reader behaves like a cursor over the plaintext `p`. -/
theorem EncRd.isCursor {ι : Type} [Stream ι] (P : Params) (C : EncPrims) (hC : EncPrims.Laws P C)
    {InvI : ι → Prop} {absI : ι → Nat} (p : Bytes)
    (hchunks : p.length / P.chunk + 1 < U32)          -- chunk indices fit in a u32
    (hI : IsCursor InvI absI (sealS P C p)) :
    IsCursor (σ := EncRd P C ι) (EncRd.Inv P C p InvI absI)
      (fun s => s.r.chunkNo * P.chunk + s.r.cpos) p := by
  refine ⟨fun s h => h.abs_le, ?_, ?_⟩
  · intro s w target h ht hw
    obtain ⟨r', hs, hi, ha⟩ := EncR.seekFull_ok P C hC.tagLen p hI s.r w target h ht (by omega)
      (by cases w <;> simpa using hw)
    refine ⟨⟨r'⟩, ?_, hi, ha⟩
    simp [Stream.seek, hs]
  · intro s n h
    obtain ⟨r1, h1, ha1, hc1, hr⟩ := EncR.readFull_eq P C hC.tagLen p hI s.r n h
    obtain ⟨hi2, hout, hlen, hpos, ha2⟩ := EncR.fromCache_ok P C p r1 n h1
    refine ⟨⟨(EncR.fromCache P r1 n).1⟩, (EncR.fromCache P r1 n).2, ?_, hi2, ?_, hlen, ?_, ?_⟩
    · simp [Stream.read, hr]
    · rw [← ha1]; exact hout
    · intro hn hlt; exact hpos hn (by omega) hc1
    · show (EncR.fromCache P r1 n).1.chunkNo * P.chunk + (EncR.fromCache P r1 n).1.cpos = _
      omega

/-- the state right after `new` + `initialize` satisfies the invariant at position 0 -/
theorem EncR.init_ok {ι : Type} [Stream ι] (P : Params) (C : EncPrims) (hC : EncPrims.Laws P C)
    {InvI : ι → Prop} {absI : ι → Nat} (p : Bytes) (hI : IsCursor InvI absI (sealS P C p))
    (inner : ι) (hin : InvI inner) :
    ∃ r, EncR.init P C inner = (r, .ok 0) ∧ EncRd.Inv P C p InvI absI ⟨r⟩ ∧
      r.chunkNo * P.chunk + r.cpos = 0 :=
  EncR.seekStart_ok P C hC.tagLen p hI ⟨inner, [], 0, 0, false⟩ 0 hin (Nat.zero_le _)
    (by rw [Nat.zero_div]; decide)

/-- **L1** for the encryption layer: verify-and-decrypt of the sealed stream is the plaintext. -/
theorem open_seal (P : Params) (C : EncPrims) (hC : EncPrims.Laws P C) (p : Bytes) (fuel : Nat)
    (hf : p.length / P.chunk + 2 ≤ fuel) : openAll P C fuel 0 (sealS P C p) = .ok p := by
  apply openAll_sealS P C hC.tagLen p fuel
  have : nLast P p ≤ p.length / P.chunk := Nat.div_le_div_right (Nat.sub_le _ _)
  omega

/-- length of the sealed stream: one tag per chunk, one (empty) chunk for the empty plaintext -/
theorem seal_length (P : Params) (C : EncPrims) (hC : EncPrims.Laws P C) (p : Bytes) :
    (sealS P C p).length = p.length + ((p.length - 1) / P.chunk + 1) * P.tagLen :=
  sealS_length P C hC.tagLen p

/-! ### Non-vacuity: a concrete instance (chunk = 4, three chunks, the last one partial) -/

section Example
def exP : Params := Params.scaled 4 3 8 2 4 (by decide)
def exC : EncPrims :=
  { ks := fun i off => (i * 7 + off).toUInt8,
    tag := fun i c => List.replicate 16 (i.toUInt8 + c.length.toUInt8) }
def exPlain : Bytes := [10, 11, 12, 13, 14, 15, 16, 17, 18]

theorem exLaws : EncPrims.Laws exP exC := ⟨fun _ _ => by simp [exC, exP, Params.scaled]⟩

/-- the hypotheses of `EncRd.isCursor` are satisfiable: inner stream = in-memory cursor -/
example : IsCursor (σ := EncRd exP exC Cur)
    (EncRd.Inv exP exC exPlain (fun c => c.data = sealS exP exC exPlain ∧
      c.pos ≤ (sealS exP exC exPlain).length) (·.pos))
    (fun s => s.r.chunkNo * exP.chunk + s.r.cpos) exPlain :=
  EncRd.isCursor exP exC exLaws exPlain (by decide) (Cur.isCursor _)

/-- and the initial state exists -/
example : ∃ r, EncR.init exP exC (⟨sealS exP exC exPlain, 0⟩ : Cur) = (r, .ok 0) ∧
    EncRd.Inv exP exC exPlain (fun c => c.data = sealS exP exC exPlain ∧
      c.pos ≤ (sealS exP exC exPlain).length) (·.pos) ⟨r⟩ ∧ r.chunkNo * exP.chunk + r.cpos = 0 :=
  EncR.init_ok exP exC exLaws exPlain (Cur.isCursor _) _ ⟨rfl, Nat.zero_le _⟩

example : (sealS exP exC exPlain).length = 9 + 3 * 16 := by
  rw [seal_length exP exC exLaws]; rfl

example : openAll exP exC 4 0 (sealS exP exC exPlain) = .ok exPlain :=
  open_seal exP exC exLaws exPlain 4 (by decide)
end Example

end MlaModel.C11

/-
  C02 at the level of the archive file: soundness of repair for ANY truncation of the archive body,
  through any layer combination, in both fail-safe decryption modes.

  Setting: `ops` satisfies the hypotheses of `C01.blocks`, `S := (Writer.run P H ops).2.2` is its
  block stream, `body := sealedBody P C cfg S cs` the bytes the writer stack emits after the header
  (`cfg`: no layer / encryption / compression / compression under encryption; with compression,
  `cs` are the compressed blocks, `IsEncoded P K S cs`).  The codec satisfies `Codec.Laws`, the tag
  function produces `tagLen` bytes.  The damaged archive is `body.take n`, ANY `n`; the fail-safe
  stack delivers `failsafeDeliver P C K cfg mode (body.take n)` = (bytes, stopped-with-error) to
  `Repair.convert`.

    * `delivered_stack` : what the stack delivers is a prefix of the genuine block stream, or the
        genuine block stream followed by junk (`Delivered`) — no extra hypothesis for any of the
        eight (cfg, mode) combinations.
    * `archive_sound`   : hence (a) the calls of repair are accepted, end with `finalize`, are well
        formed; (b) every recovered file is an original file with a prefix of its content, complete
        unless reported unfinished; (c) names are distinct; (d) if repair reports the end-of-archive
        marker the output is exactly the original.
    * `stack_body`      : `sealedBody` is what the real writer stack (`Stack.run`, any cut of the
        layers' output into `write_all` calls) puts after the header for an accepted, finalized op
        sequence — with compression, for some blocks `cs` with `IsEncoded P K S cs`.  So the theorems
        are about the bytes of the archive file.
-/
import MlaModel.Theorems.C02
import MlaModel.Proofs.RepairStack
import MlaModel.Proofs.CompressWriterStreams
import MlaModel.Theorems.C07
namespace MlaModel.C02
open MlaModel

section
variable (P : Params) (H : Bytes → Bytes) (utf8 : Bytes → Bool) (ops : List Op)
  (hH : ∀ b, (H b).length = hashLen) (hwf : ∀ op ∈ ops, op.WF utf8)
  (hacc : AllAccepted P H ops) (hfin : ops.getLast? = some .finalize)
  (hlen : ops.length < U64) (hpos : (Writer.run P H ops).2.2.length < U64)
  (C : EncPrims) (K : Codec) (hK : K.Laws) (hTag : ∀ i c, (C.tag i c).length = P.tagLen)
  (cfg : LayerCfg) (mode : FsMode) (cs : List Bytes)
  (hcs : cfg.compressed = true → CompFS.IsEncoded P K (Writer.run P H ops).2.2 cs)

include hK hTag hcs in
/-- **C02.delivered_stack** — whatever the truncation, the layers and the mode, the fail-safe stack
    delivers a prefix of the genuine block stream, or all of it followed by junk. -/
theorem delivered_stack (n : Nat) :
    Delivered (Writer.run P H ops).2.2
      (failsafeDeliver P C K cfg mode
        ((sealedBody P C cfg (Writer.run P H ops).2.2 cs).take n)).1 :=
  deliver_comparable P C K hK hTag cfg mode _ cs hcs n

include hH hwf hacc hfin hlen hpos hK hTag hcs in
/-- **C02.archive_sound** — C02 (a)–(d) for the repair of any truncation of the archive body. -/
theorem archive_sound (n : Nat) :
    let dl := failsafeDeliver P C K cfg mode
      ((sealedBody P C cfg (Writer.run P H ops).2.2 cs).take n)
    let o := Repair.convert P H utf8 dl.1 dl.2
    (AllAccepted P H o.ops ∧ o.ops.getLast? = some .finalize ∧ (∀ op ∈ o.ops, op.WF utf8)) ∧
    (∀ name c', (name, c') ∈ specOf o.ops →
      ∃ c, (name, c) ∈ specOf ops ∧ c' <+: c ∧ (name ∉ o.unfinished → c' = c)) ∧
    ((specOf o.ops).map (·.1)).Nodup ∧
    (o.stop = .eoad → specOf o.ops = specOf ops ∧ o.unfinished = []) := by
  intro dl o
  have hd := delivered_stack P H ops C K hK hTag cfg mode cs hcs n
  exact ⟨accepted P H utf8 ops hH hwf hacc hfin hlen hpos dl.1 dl.2 hd,
    sound P H utf8 ops hH hwf hacc hfin hlen hpos dl.1 dl.2 hd,
    names_nodup P H utf8 ops hH hwf hacc hfin hlen hpos dl.1 dl.2 hd,
    eoad_complete P H utf8 ops hH hwf hacc hfin hlen hpos dl.1 dl.2 hd⟩

end

/-! ### `sealedBody` is what the writer stack emits -/

/-- the layer combination of a writer configuration -/
def _root_.MlaModel.LayerCfg.ofStack (c : StackCfg) : LayerCfg :=
  match c.compress, c.encrypt with
  | none, false => .none
  | none, true => .enc
  | some _, false => .comp
  | some _, true => .compEnc

section
variable (P : Params) (H : Bytes → Bytes)

/-- an accepted sequence that ends with `finalize` leaves the writer finalized -/
theorem finalized_of_accepted (ops : List Op) (hacc : AllAccepted P H ops)
    (hfin : ops.getLast? = some .finalize) : (Writer.run P H ops).1.finalized = true := by
  obtain ⟨ops', rfl⟩ := List.getLast?_eq_some_iff.1 hfin
  unfold AllAccepted at hacc
  unfold Writer.run at hacc ⊢
  rw [runFrom_append] at hacc ⊢
  simp only [Writer.runFrom, Writer.step] at hacc ⊢
  have hok := hacc (stepFinalize (Writer.runFrom P H WState.init ops').1).2.1 (by simp)
  generalize (Writer.runFrom P H WState.init ops').1 = s' at *
  unfold stepFinalize at hok ⊢
  split
  · rename_i hf; simp [hf, Res.isOk] at hok
  · rename_i hf
    split
    · rename_i ho; simp [hf, ho, Res.isOk] at hok
    · rfl

/-- the compression layer's whole output (blocks, then the table) for the calls the archive writer
    issued: finished encoder streams of the blocks of the block stream, then the sizes table -/
theorem inner_encoded (K : Codec) (l : Nat) (enc : Bool) (cutTop : Cut) (ops : List Op)
    (hfin : (Writer.run P H ops).1.finalized = true) :
    ∃ cs, CompFS.IsEncoded P K (Writer.run P H ops).2.2 cs ∧
      Stack.inner P H K ⟨some l, enc⟩ cutTop ops = compBody P (Writer.run P H ops).2.2 cs := by
  have hf : (Stack.topActs P H cutTop 0 WState.init ops).2 = true := by
    rw [C07.topActs_fin P H cutTop ops 0 WState.init rfl]; exact hfin
  obtain ⟨cs, h1, h2⟩ := compRun_finalize_encoded P K l (Stack.topActs P H cutTop 0 WState.init ops).1
  rw [C07.topActs_written] at h1 h2
  refine ⟨cs, h1, ?_⟩
  simp only [Stack.inner, hf, if_true, compBody]
  exact h2

/-- **C02.stack_body** — for an accepted op sequence that ends with `finalize`, the bytes the writer
    stack puts after the header (any layer configuration, any cut of the layers' output into
    `write_all` calls) are `sealedBody` of the block stream. -/
theorem stack_body (C : EncPrims) (K : Codec) (cfg : StackCfg) (cutTop cutComp : Cut) (ops : List Op)
    (hacc : AllAccepted P H ops) (hfin : ops.getLast? = some .finalize) :
    ∃ cs, ((LayerCfg.ofStack cfg).compressed = true →
        CompFS.IsEncoded P K (Writer.run P H ops).2.2 cs) ∧
      (Stack.run P H C K cfg cutTop cutComp ops).dest =
        sealedBody P C (LayerCfg.ofStack cfg) (Writer.run P H ops).2.2 cs ∧
      (cfg.encrypt = true → Stack.inner P H K cfg cutTop ops =
        encPlain P (LayerCfg.ofStack cfg) (Writer.run P H ops).2.2 cs) := by
  have hf := finalized_of_accepted P H ops hacc hfin
  obtain ⟨lvl, enc⟩ := cfg
  cases enc with
  | false =>
    have hd := C07.no_encrypt_passthrough P H C K lvl cutTop cutComp ops
    cases lvl with
    | none =>
      refine ⟨[], by simp [LayerCfg.ofStack, LayerCfg.compressed], ?_, by simp⟩
      rw [hd, C07.inner_plain]; rfl
    | some l =>
      obtain ⟨cs, h1, h2⟩ := inner_encoded P H K l false cutTop ops hf
      exact ⟨cs, fun _ => h1, by rw [hd, h2]; rfl, by simp⟩
  | true =>
    obtain ⟨hd, _, hfe⟩ := C07.all_through_cipher P H C K lvl cutTop cutComp ops
    have hd' := hd (by rw [hfe]; exact hf)
    cases lvl with
    | none =>
      refine ⟨[], by simp [LayerCfg.ofStack, LayerCfg.compressed], ?_, fun _ => ?_⟩
      · rw [hd', C07.inner_plain]; rfl
      · rw [C07.inner_plain]; rfl
    | some l =>
      obtain ⟨cs, h1, h2⟩ := inner_encoded P H K l true cutTop ops hf
      exact ⟨cs, fun _ => h1, by rw [hd', h2]; rfl, fun _ => by rw [h2]; rfl⟩

end

section
variable (P : Params) (H : Bytes → Bytes) (utf8 : Bytes → Bool) (ops : List Op)
  (hH : ∀ b, (H b).length = hashLen) (hwf : ∀ op ∈ ops, op.WF utf8)
  (hacc : AllAccepted P H ops) (hfin : ops.getLast? = some .finalize)
  (hlen : ops.length < U64) (hpos : (Writer.run P H ops).2.2.length < U64)
  (C : EncPrims) (K : Codec) (hK : K.Laws) (hTag : ∀ i c, (C.tag i c).length = P.tagLen)
include hH hwf hacc hfin hlen hpos hK hTag

/-- **C02.archive_sound_file** — C02 (a)–(d) about the bytes of the archive file: `dest` is what the
    real writer stack put after the header (any configuration, any cut of the layers' writes); the
    damaged archive is any truncation of it; repair reads it through the fail-safe stack in either
    mode. -/
theorem archive_sound_file (cfg : StackCfg) (cutTop cutComp : Cut) (mode : FsMode) (n : Nat) :
    let dest := (Stack.run P H C K cfg cutTop cutComp ops).dest
    let dl := failsafeDeliver P C K (LayerCfg.ofStack cfg) mode (dest.take n)
    let o := Repair.convert P H utf8 dl.1 dl.2
    (AllAccepted P H o.ops ∧ o.ops.getLast? = some .finalize ∧ (∀ op ∈ o.ops, op.WF utf8)) ∧
    (∀ name c', (name, c') ∈ specOf o.ops →
      ∃ c, (name, c) ∈ specOf ops ∧ c' <+: c ∧ (name ∉ o.unfinished → c' = c)) ∧
    ((specOf o.ops).map (·.1)).Nodup ∧
    (o.stop = .eoad → specOf o.ops = specOf ops ∧ o.unfinished = []) := by
  obtain ⟨cs, hcs, hdest, _⟩ := stack_body P H C K cfg cutTop cutComp ops hacc hfin
  intro dest
  have : dest = sealedBody P C (LayerCfg.ofStack cfg) (Writer.run P H ops).2.2 cs := hdest
  rw [this]
  exact archive_sound P H utf8 ops hH hwf hacc hfin hlen hpos C K hK hTag _ mode cs hcs n

end

end MlaModel.C02

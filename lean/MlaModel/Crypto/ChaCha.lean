/-
  CryptoLean.ChaCha — ChaCha20 block function (quarter round of RFC 8439 §2.1) in the
  original DJB layout: 64-bit block counter (words 12–13) and 64-bit nonce / stream id
  (words 14–15).  This is the layout of `rand_chacha::ChaCha20Rng`.

  API (ByteArray):
    `chachaBlock key32 counter stream rounds`  one 64-byte keystream block
    `chacha20Keystream key32 counter stream n` first `n` keystream bytes from block `counter`
    `chacha20RngBytes seed32 n`                what `ChaCha20Rng::from_seed(seed).fill_bytes(&mut [0u8; n])`
                                               writes (key = seed, counter = 0, stream = 0)
  `List UInt8` wrappers: `chacha20KeystreamL`, `chacha20RngBytesL`.

  With `stream = 0` and `counter < 2^32` the block equals the RFC 8439 block with
  an all-zero nonce.
  Caveat on `chacha20RngBytes`: it models ONE `fill_bytes` call on a fresh RNG.
  `rand_core::BlockRng::fill_bytes` consumes whole 32-bit words, so successive
  calls concatenate to the same stream only if every call but the last has a
  length that is a multiple of 4 (otherwise the unused bytes of the last word
  are dropped); `chacha20RngStream` below models a sequence of calls.
-/
import MlaModel.Crypto.Util

namespace MlaModel.Crypto

@[inline] private def rotl32 (x : UInt32) (k : UInt32) : UInt32 := (x <<< k) ||| (x >>> (32 - k))

/-- RFC 8439 §2.1 quarter round on state words `a b c d`. -/
def quarterRound (s : Array UInt32) (a b c d : Nat) : Array UInt32 :=
  let xa := s[a]!; let xb := s[b]!; let xc := s[c]!; let xd := s[d]!
  let xa := xa + xb; let xd := rotl32 (xd ^^^ xa) 16
  let xc := xc + xd; let xb := rotl32 (xb ^^^ xc) 12
  let xa := xa + xb; let xd := rotl32 (xd ^^^ xa) 8
  let xc := xc + xd; let xb := rotl32 (xb ^^^ xc) 7
  (((s.set! a xa).set! b xb).set! c xc).set! d xd

/-- A column round followed by a diagonal round. -/
def doubleRound (s : Array UInt32) : Array UInt32 :=
  let s := quarterRound s 0 4 8 12
  let s := quarterRound s 1 5 9 13
  let s := quarterRound s 2 6 10 14
  let s := quarterRound s 3 7 11 15
  let s := quarterRound s 0 5 10 15
  let s := quarterRound s 1 6 11 12
  let s := quarterRound s 2 7 8 13
  quarterRound s 3 4 9 14

/-- Initial state: "expand 32-byte k", key, 64-bit counter, 64-bit stream id (all LE words). -/
def chachaInit (key : ByteArray) (counter stream : UInt64) : Array UInt32 :=
  #[0x61707865, 0x3320646e, 0x79622d32, 0x6b206574,
    loadLE32 key 0, loadLE32 key 4, loadLE32 key 8, loadLE32 key 12,
    loadLE32 key 16, loadLE32 key 20, loadLE32 key 24, loadLE32 key 28,
    counter.toUInt32, (counter >>> 32).toUInt32, stream.toUInt32, (stream >>> 32).toUInt32]

/-- Append one keystream block (`rounds` = 20 for ChaCha20) to `out`. -/
def chachaBlockInto (out : ByteArray) (key : ByteArray) (counter stream : UInt64)
    (rounds : Nat := 20) : ByteArray := Id.run do
  let init := chachaInit key counter stream
  let mut s := init
  for _ in [0:rounds / 2] do
    s := doubleRound s
  let mut out := out
  for i in [0:16] do
    out := pushLE32 out (s[i]! + init[i]!)
  return out

def chachaBlock (key : ByteArray) (counter stream : UInt64) (rounds : Nat := 20) : ByteArray :=
  chachaBlockInto (ByteArray.emptyWithCapacity 64) key counter stream rounds

/-- First `n` bytes of the ChaCha20 keystream starting at block `counter`. -/
def chacha20Keystream (key : ByteArray) (counter stream : UInt64) (n : Nat) : ByteArray := Id.run do
  let nblocks := (n + 63) / 64
  let mut out := ByteArray.emptyWithCapacity (64 * nblocks)
  for i in [0:nblocks] do
    out := chachaBlockInto out key (counter + i.toUInt64) stream
  return out.extract 0 n

/-- Output of a single `fill_bytes(n)` on `ChaCha20Rng::from_seed(seed)`. -/
def chacha20RngBytes (seed : ByteArray) (n : Nat) : ByteArray := chacha20Keystream seed 0 0 n

/-- Outputs of successive `fill_bytes` calls of the given lengths on a fresh
    `ChaCha20Rng::from_seed(seed)`: each call starts on a 4-byte word boundary. -/
def chacha20RngStream (seed : ByteArray) (lens : List Nat) : List ByteArray :=
  let total := lens.foldl (fun acc n => acc + (n + 3) / 4 * 4) 0
  let ks := chacha20Keystream seed 0 0 total
  (lens.foldl (fun (acc : List ByteArray × Nat) n =>
      (ks.extract acc.2 (acc.2 + n) :: acc.1, acc.2 + (n + 3) / 4 * 4)) ([], 0)).1.reverse

/-! ### `List UInt8` wrappers -/

def chacha20KeystreamL (key : Bytes) (counter stream : UInt64) (n : Nat) : Bytes :=
  toList (chacha20Keystream (ofList key) counter stream n)
def chacha20RngBytesL (seed : Bytes) (n : Nat) : Bytes := toList (chacha20RngBytes (ofList seed) n)

end MlaModel.Crypto

/-
  CryptoLean.Util — byte-string helpers shared by all primitives.

  Conventions used throughout `MlaModel.Crypto`:
  * the primary API of every primitive is over `ByteArray`;
  * for each public function `f` there is a thin wrapper `fL` over
    `Bytes = List UInt8` (the model's byte-string type) defined at the end of
    the file that defines `f`; conversions are `ofList` / `toList` below.
  * nothing here is `partial`/`unsafe`; out-of-range reads yield 0 (`getD`-style).
-/
namespace MlaModel.Crypto

/-- The model's byte-string type. -/
abbrev Bytes := List UInt8

@[inline] def ofList (l : Bytes) : ByteArray := ⟨l.toArray⟩
@[inline] def toList (b : ByteArray) : Bytes := b.data.toList

/-- `n` zero bytes. -/
def zeros (n : Nat) : ByteArray := ⟨Array.replicate n 0⟩

/-- Byte at `i`, or 0 past the end (never panics). -/
@[inline] def byteAt (b : ByteArray) (i : Nat) : UInt8 :=
  if h : i < b.size then b[i] else 0

/-- Structural equality of byte arrays. -/
@[inline] def bytesEq (a b : ByteArray) : Bool := a.data == b.data

/-- Bytewise XOR; result has the length of `a`, `b` is zero-extended. -/
def xorBytes (a b : ByteArray) : ByteArray := Id.run do
  let mut out := ByteArray.emptyWithCapacity a.size
  for i in [0:a.size] do
    out := out.push (byteAt a i ^^^ byteAt b i)
  return out

/-! ### Fixed-width loads (zero-padded past the end) and stores -/

@[inline] def loadBE32 (b : ByteArray) (o : Nat) : UInt32 :=
  ((byteAt b o).toUInt32 <<< 24) ||| ((byteAt b (o+1)).toUInt32 <<< 16) |||
  ((byteAt b (o+2)).toUInt32 <<< 8) ||| (byteAt b (o+3)).toUInt32

@[inline] def loadLE32 (b : ByteArray) (o : Nat) : UInt32 :=
  ((byteAt b (o+3)).toUInt32 <<< 24) ||| ((byteAt b (o+2)).toUInt32 <<< 16) |||
  ((byteAt b (o+1)).toUInt32 <<< 8) ||| (byteAt b o).toUInt32

@[inline] def loadBE64 (b : ByteArray) (o : Nat) : UInt64 :=
  ((loadBE32 b o).toUInt64 <<< 32) ||| (loadBE32 b (o+4)).toUInt64

@[inline] def pushBE32 (b : ByteArray) (w : UInt32) : ByteArray :=
  (((b.push (w >>> 24).toUInt8).push (w >>> 16).toUInt8).push (w >>> 8).toUInt8).push w.toUInt8

@[inline] def pushLE32 (b : ByteArray) (w : UInt32) : ByteArray :=
  (((b.push w.toUInt8).push (w >>> 8).toUInt8).push (w >>> 16).toUInt8).push (w >>> 24).toUInt8

@[inline] def pushBE64 (b : ByteArray) (w : UInt64) : ByteArray :=
  pushBE32 (pushBE32 b (w >>> 32).toUInt32) w.toUInt32

/-! ### Hex (used by the tests and handy for the driver) -/

private def hexDigit (n : UInt8) : Char :=
  if n < 10 then Char.ofNat (48 + n.toNat) else Char.ofNat (87 + n.toNat)

def hexEncode (b : ByteArray) : String := Id.run do
  let mut s := ""
  for x in b do
    s := (s.push (hexDigit (x >>> 4))).push (hexDigit (x &&& 0xf))
  return s

private def hexVal (c : Char) : Option UInt8 :=
  if '0' ≤ c ∧ c ≤ '9' then some (c.toNat - 48).toUInt8
  else if 'a' ≤ c ∧ c ≤ 'f' then some (c.toNat - 87).toUInt8
  else if 'A' ≤ c ∧ c ≤ 'F' then some (c.toNat - 55).toUInt8
  else none

/-- Decode a hex string (no separators); `none` on odd length / bad digit. -/
def hexDecode? (s : String) : Option ByteArray :=
  let rec go : List Char → ByteArray → Option ByteArray
    | [], acc => some acc
    | [_], _ => none
    | a :: b :: rest, acc => do
      let h ← hexVal a
      let l ← hexVal b
      go rest (acc.push ((h <<< 4) ||| l))
  go s.toList ByteArray.empty

/-- Decode hex, mapping malformed input to the empty string (test convenience). -/
def hexDecode (s : String) : ByteArray := (hexDecode? s).getD ByteArray.empty

end MlaModel.Crypto

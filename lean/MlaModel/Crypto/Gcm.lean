/-
  CryptoLean.Gcm — AES-256-GCM (NIST SP 800-38D) with 96-bit nonces, 128-bit tags.

  API (ByteArray):
    `ghash h aad ct`                               GHASH_H(aad ‖ pad ‖ ct ‖ pad ‖ len64(aad) ‖ len64(ct))
    `ctrKeystream key nonce firstCounter len`      E_K(nonce‖ctr) ‖ E_K(nonce‖ctr+1) ‖ …  (truncated to `len`)
    `ctrXor key nonce firstCounter data`           data XOR keystream
    `gcmTag key nonce aad ct`                      16-byte tag
    `gcmEncrypt key nonce aad pt`                  (ciphertext, tag)
    `gcmDecrypt key nonce aad ct tag`              `some pt` iff the tag verifies
  Same functions with a precomputed key: `GcmKey.new key`, `GcmKey.ctrXor`,
  `GcmKey.tag`, `GcmKey.encrypt`, `GcmKey.decrypt` (and `GhashKey.ofH`, `GhashKey.hash`).
  `List UInt8` wrappers: `ghashL`, `ctrKeystreamL`, `gcmTagL`, `gcmEncryptL`, `gcmDecryptL`.

  Counter blocks are `nonce(12) ‖ BE32(ctr)`; `ctr` wraps modulo 2^32 (inc32).
  Counter 1 masks the tag, data encryption starts at counter 2.
  GHASH uses Shoup's 4-bit tables (16 entries per key, 32 table steps per block).
-/
import MlaModel.Crypto.Aes

namespace MlaModel.Crypto

/-- A 128-bit value, GCM bit order: `hi` holds bytes 0..7 (big-endian). -/
structure U128 where
  hi : UInt64
  lo : UInt64
  deriving Inhabited, BEq

/-- Per-key GHASH table: entry `i` is `i·H` for the 4-bit polynomial `i` (split in halves). -/
structure GhashKey where
  hh : Array UInt64
  hl : Array UInt64
  deriving Inhabited

/-- Reduction constants for shifting 4 bits out of the low end (pre-shift by 48). -/
private def last4 : Array UInt64 :=
  (#[0x0000, 0x1c20, 0x3840, 0x2460, 0x7080, 0x6ca0, 0x48c0, 0x54e0,
     0xe100, 0xfd20, 0xd940, 0xc560, 0x9180, 0x8da0, 0xa9c0, 0xb5e0] : Array UInt64).map fun (x : UInt64) => x <<< 48

/-- Build the table from the 16-byte hash subkey `H = E_K(0^128)`. -/
def GhashKey.ofH (h : ByteArray) : GhashKey := Id.run do
  let mut hh : Array UInt64 := Array.replicate 16 0
  let mut hl : Array UInt64 := Array.replicate 16 0
  let mut vh := loadBE64 h 0
  let mut vl := loadBE64 h 8
  hh := hh.set! 8 vh
  hl := hl.set! 8 vl
  -- entries 4, 2, 1: successive multiplications by x
  for i in [4, 2, 1] do
    let t : UInt64 := if vl &&& 1 != 0 then 0xe100000000000000 else 0
    vl := (vh <<< 63) ||| (vl >>> 1)
    vh := (vh >>> 1) ^^^ t
    hh := hh.set! i vh
    hl := hl.set! i vl
  -- the rest by linearity
  for i in [2, 4, 8] do
    for j in [1:i] do
      hh := hh.set! (i + j) (hh[i]! ^^^ hh[j]!)
      hl := hl.set! (i + j) (hl[i]! ^^^ hl[j]!)
  return ⟨hh, hl⟩

/-- Horner steps over the 16 nibbles of `x`, least significant first:
    `z := z·x^4 ⊕ nibble·H`. -/
private def mulNibbles (k : GhashKey) : (fuel : Nat) → (x zh zl : UInt64) → U128
  | 0, _, zh, zl => ⟨zh, zl⟩
  | fuel+1, x, zh, zl =>
    let nib := (x &&& 0xf).toNat
    let rem := (zl &&& 0xf).toNat
    let zl' := ((zh <<< 60) ||| (zl >>> 4)) ^^^ k.hl[nib]!
    let zh' := (zh >>> 4) ^^^ last4[rem]! ^^^ k.hh[nib]!
    mulNibbles k fuel (x >>> 4) zh' zl'

/-- Multiplication by `H` in GF(2^128). -/
def GhashKey.mul (k : GhashKey) (x : U128) : U128 :=
  let z := mulNibbles k 16 x.lo 0 0
  mulNibbles k 16 x.hi z.hi z.lo

/-- Absorb `data` (zero-padded to a multiple of 16 bytes) into the GHASH state `y`. -/
def GhashKey.update (k : GhashKey) (y : U128) (data : ByteArray) : U128 :=
  let rec go : (fuel off : Nat) → U128 → U128
    | 0, _, y => y
    | fuel+1, off, y =>
      go fuel (off + 16) (k.mul ⟨y.hi ^^^ loadBE64 data off, y.lo ^^^ loadBE64 data (off + 8)⟩)
  go ((data.size + 15) / 16) 0 y

/-- Full GHASH of (aad, ct) including the length block, as a 128-bit value. -/
def GhashKey.hash (k : GhashKey) (aad ct : ByteArray) : U128 :=
  let y := k.update (k.update ⟨0, 0⟩ aad) ct
  k.mul ⟨y.hi ^^^ (aad.size.toUInt64 <<< 3), y.lo ^^^ (ct.size.toUInt64 <<< 3)⟩

def U128.toBytes (x : U128) : ByteArray :=
  pushBE64 (pushBE64 (ByteArray.emptyWithCapacity 16) x.hi) x.lo

/-- `ghash h aad ct`: `h` is the 16-byte hash subkey; result is 16 bytes. -/
def ghash (h aad ct : ByteArray) : ByteArray := ((GhashKey.ofH h).hash aad ct).toBytes

/-- AES key schedule plus GHASH table. -/
structure GcmKey where
  aes : AesKey
  gh : GhashKey
  deriving Inhabited

def GcmKey.new (key : ByteArray) : GcmKey :=
  let aes := AesKey.expand key
  ⟨aes, GhashKey.ofH (aes.encryptBlock (zeros 16))⟩

/-- Counter-mode: XOR `data` with the keystream starting at block counter `firstCounter`. -/
def AesKey.ctrXor (k : AesKey) (nonce : ByteArray) (firstCounter : UInt32) (data : ByteArray) :
    ByteArray :=
  let n0 := loadBE32 nonce 0
  let n1 := loadBE32 nonce 4
  let n2 := loadBE32 nonce 8
  let full := data.size / 16
  let rec blocks : (fuel off : Nat) → UInt32 → ByteArray → ByteArray
    | 0, _, _, out => out
    | fuel+1, off, ctr, out =>
      let ks := k.encryptWords ⟨n0, n1, n2, ctr⟩
      let out := pushBE32 out (ks.w0 ^^^ loadBE32 data off)
      let out := pushBE32 out (ks.w1 ^^^ loadBE32 data (off + 4))
      let out := pushBE32 out (ks.w2 ^^^ loadBE32 data (off + 8))
      let out := pushBE32 out (ks.w3 ^^^ loadBE32 data (off + 12))
      blocks fuel (off + 16) (ctr + 1) out
  let out := blocks full 0 firstCounter (ByteArray.emptyWithCapacity data.size)
  let tail := data.size % 16
  if tail == 0 then out else Id.run do
    let ks := (k.encryptWords ⟨n0, n1, n2, firstCounter + full.toUInt32⟩).toBytes
    let mut out := out
    for i in [0:tail] do
      out := out.push (byteAt ks i ^^^ byteAt data (16 * full + i))
    return out

def GcmKey.ctrXor (k : GcmKey) := k.aes.ctrXor

/-- Tag = GHASH_H(aad, ct) XOR E_K(nonce ‖ 0x00000001). -/
def GcmKey.tag (k : GcmKey) (nonce aad ct : ByteArray) : ByteArray :=
  let s := k.gh.hash aad ct
  let e := k.aes.encryptWords ⟨loadBE32 nonce 0, loadBE32 nonce 4, loadBE32 nonce 8, 1⟩
  let ehi := (e.w0.toUInt64 <<< 32) ||| e.w1.toUInt64
  let elo := (e.w2.toUInt64 <<< 32) ||| e.w3.toUInt64
  (U128.mk (s.hi ^^^ ehi) (s.lo ^^^ elo)).toBytes

def GcmKey.encrypt (k : GcmKey) (nonce aad pt : ByteArray) : ByteArray × ByteArray :=
  let ct := k.aes.ctrXor nonce 2 pt
  (ct, k.tag nonce aad ct)

def GcmKey.decrypt (k : GcmKey) (nonce aad ct tag : ByteArray) : Option ByteArray :=
  if bytesEq (k.tag nonce aad ct) tag then some (k.aes.ctrXor nonce 2 ct) else none

/-! ### One-shot API taking the raw 32-byte key -/

def ctrXor (key nonce : ByteArray) (firstCounter : UInt32) (data : ByteArray) : ByteArray :=
  (AesKey.expand key).ctrXor nonce firstCounter data

def ctrKeystream (key nonce : ByteArray) (firstCounter : UInt32) (len : Nat) : ByteArray :=
  ctrXor key nonce firstCounter (zeros len)

def gcmTag (key nonce aad ct : ByteArray) : ByteArray := (GcmKey.new key).tag nonce aad ct

def gcmEncrypt (key nonce aad pt : ByteArray) : ByteArray × ByteArray :=
  (GcmKey.new key).encrypt nonce aad pt

def gcmDecrypt (key nonce aad ct tag : ByteArray) : Option ByteArray :=
  (GcmKey.new key).decrypt nonce aad ct tag

/-! ### `List UInt8` wrappers -/

def ghashL (h aad ct : Bytes) : Bytes := toList (ghash (ofList h) (ofList aad) (ofList ct))
def ctrKeystreamL (key nonce : Bytes) (firstCounter : UInt32) (len : Nat) : Bytes :=
  toList (ctrKeystream (ofList key) (ofList nonce) firstCounter len)
def gcmTagL (key nonce aad ct : Bytes) : Bytes :=
  toList (gcmTag (ofList key) (ofList nonce) (ofList aad) (ofList ct))
def gcmEncryptL (key nonce aad pt : Bytes) : Bytes × Bytes :=
  let (c, t) := gcmEncrypt (ofList key) (ofList nonce) (ofList aad) (ofList pt)
  (toList c, toList t)
def gcmDecryptL (key nonce aad ct tag : Bytes) : Option Bytes :=
  (gcmDecrypt (ofList key) (ofList nonce) (ofList aad) (ofList ct) (ofList tag)).map toList

end MlaModel.Crypto

/-
  CryptoLean.Aes — AES-256 block encryption (FIPS-197), table based.

  API (ByteArray):
    `AesKey`                      precomputed round keys (60 words)
    `AesKey.expand key32`         key expansion
    `AesKey.encryptWords k blk`   encrypt a block given as 4 big-endian words
    `AesKey.encryptBlock k b16`   encrypt a 16-byte block
    `aes256EncryptBlock key32 b16`
  `List UInt8` wrapper: `aes256EncryptBlockL`.

  The S-box and the four "T-tables" (SubBytes+ShiftRows+MixColumns fused) are
  computed once at initialisation from the algebraic definition; they are
  checked against FIPS-197 by the test-suite.  Only encryption is provided
  (GCM never needs the inverse cipher).  Inputs shorter than expected are
  implicitly zero-padded, longer ones truncated.
-/
import MlaModel.Crypto.Util

namespace MlaModel.Crypto

/-- Multiplication by `x` in GF(2^8) modulo x^8+x^4+x^3+x+1. -/
@[inline] def xtime (x : UInt8) : UInt8 :=
  (x <<< 1) ^^^ (if x &&& 0x80 != 0 then 0x1b else 0)

@[inline] private def rotl8 (x : UInt8) (k : UInt8) : UInt8 := (x <<< k) ||| (x >>> (8 - k))

/-- The AES S-box: walk `p = 3^i`, `q = 3^{-i}` through GF(2^8)^*, then the affine map. -/
def sbox : ByteArray := Id.run do
  let mut t := zeros 256
  let mut p : UInt8 := 1
  let mut q : UInt8 := 1
  for _ in [0:255] do
    p := p ^^^ xtime p                       -- p := 3·p
    q := q ^^^ (q <<< 1)                     -- q := q / 3
    q := q ^^^ (q <<< 2)
    q := q ^^^ (q <<< 4)
    if q &&& 0x80 != 0 then q := q ^^^ 0x09
    let x := q ^^^ rotl8 q 1 ^^^ rotl8 q 2 ^^^ rotl8 q 3 ^^^ rotl8 q 4
    t := t.set! p.toNat (x ^^^ 0x63)
  return t.set! 0 0x63

@[inline] def subByte (i : Nat) : UInt32 := (byteAt sbox i).toUInt32

@[inline] private def ror (w : UInt32) (k : UInt32) : UInt32 := (w >>> k) ||| (w <<< (32 - k))

/-- `te0[x] = (2·S[x], S[x], S[x], 3·S[x])` as a big-endian word (a MixColumns column). -/
def te0 : Array UInt32 := Id.run do
  let mut t : Array UInt32 := Array.emptyWithCapacity 256
  for i in [0:256] do
    let s := byteAt sbox i
    let s2 := xtime s
    t := t.push ((s2.toUInt32 <<< 24) ||| (s.toUInt32 <<< 16) ||| (s.toUInt32 <<< 8)
                 ||| (s2 ^^^ s).toUInt32)
  return t
def te1 : Array UInt32 := te0.map (ror · 8)
def te2 : Array UInt32 := te0.map (ror · 16)
def te3 : Array UInt32 := te0.map (ror · 24)

@[inline] private def byte0 (w : UInt32) : Nat := (w >>> 24).toNat
@[inline] private def byte1 (w : UInt32) : Nat := ((w >>> 16) &&& 0xff).toNat
@[inline] private def byte2 (w : UInt32) : Nat := ((w >>> 8) &&& 0xff).toNat
@[inline] private def byte3 (w : UInt32) : Nat := (w &&& 0xff).toNat

/-- `SubWord` of FIPS-197. -/
def subWord (w : UInt32) : UInt32 :=
  (subByte (byte0 w) <<< 24) ||| (subByte (byte1 w) <<< 16) |||
  (subByte (byte2 w) <<< 8) ||| subByte (byte3 w)

/-- Expanded AES-256 key: 15 round keys = 60 big-endian words. -/
structure AesKey where
  rk : Array UInt32
  deriving Inhabited

/-- FIPS-197 §5.2 key expansion with Nk = 8, Nr = 14. -/
def AesKey.expand (key : ByteArray) : AesKey := Id.run do
  let mut w : Array UInt32 := Array.emptyWithCapacity 60
  for i in [0:8] do
    w := w.push (loadBE32 key (4 * i))
  let mut rcon : UInt8 := 1
  for i in [8:60] do
    let mut t := w[i - 1]!
    if i % 8 == 0 then
      t := subWord ((t <<< 8) ||| (t >>> 24)) ^^^ (rcon.toUInt32 <<< 24)
      rcon := xtime rcon
    else if i % 8 == 4 then
      t := subWord t
    w := w.push (w[i - 8]! ^^^ t)
  return ⟨w⟩

/-- A 128-bit block as four big-endian words (column-major AES state). -/
structure Block where
  w0 : UInt32
  w1 : UInt32
  w2 : UInt32
  w3 : UInt32
  deriving Inhabited, BEq

/-- Rounds `r .. 13` (full rounds) followed by the final round 14. -/
private def encRounds (rk : Array UInt32) : (fuel r : Nat) → (s0 s1 s2 s3 : UInt32) → Block
  | 0, r, s0, s1, s2, s3 =>
    let k := 4 * r
    { w0 := ((subByte (byte0 s0) <<< 24) ||| (subByte (byte1 s1) <<< 16) |||
             (subByte (byte2 s2) <<< 8) ||| subByte (byte3 s3)) ^^^ rk[k]!
      w1 := ((subByte (byte0 s1) <<< 24) ||| (subByte (byte1 s2) <<< 16) |||
             (subByte (byte2 s3) <<< 8) ||| subByte (byte3 s0)) ^^^ rk[k+1]!
      w2 := ((subByte (byte0 s2) <<< 24) ||| (subByte (byte1 s3) <<< 16) |||
             (subByte (byte2 s0) <<< 8) ||| subByte (byte3 s1)) ^^^ rk[k+2]!
      w3 := ((subByte (byte0 s3) <<< 24) ||| (subByte (byte1 s0) <<< 16) |||
             (subByte (byte2 s1) <<< 8) ||| subByte (byte3 s2)) ^^^ rk[k+3]! }
  | fuel+1, r, s0, s1, s2, s3 =>
    let k := 4 * r
    let t0 := te0[byte0 s0]! ^^^ te1[byte1 s1]! ^^^ te2[byte2 s2]! ^^^ te3[byte3 s3]! ^^^ rk[k]!
    let t1 := te0[byte0 s1]! ^^^ te1[byte1 s2]! ^^^ te2[byte2 s3]! ^^^ te3[byte3 s0]! ^^^ rk[k+1]!
    let t2 := te0[byte0 s2]! ^^^ te1[byte1 s3]! ^^^ te2[byte2 s0]! ^^^ te3[byte3 s1]! ^^^ rk[k+2]!
    let t3 := te0[byte0 s3]! ^^^ te1[byte1 s0]! ^^^ te2[byte2 s1]! ^^^ te3[byte3 s2]! ^^^ rk[k+3]!
    encRounds rk fuel (r+1) t0 t1 t2 t3

/-- Encrypt one block given as words. -/
def AesKey.encryptWords (k : AesKey) (b : Block) : Block :=
  let rk := k.rk
  encRounds rk 13 1 (b.w0 ^^^ rk[0]!) (b.w1 ^^^ rk[1]!) (b.w2 ^^^ rk[2]!) (b.w3 ^^^ rk[3]!)

def Block.ofBytes (b : ByteArray) (off : Nat := 0) : Block :=
  ⟨loadBE32 b off, loadBE32 b (off+4), loadBE32 b (off+8), loadBE32 b (off+12)⟩

/-- Append the 16 bytes of the block to `out`. -/
@[inline] def Block.pushTo (b : Block) (out : ByteArray) : ByteArray :=
  pushBE32 (pushBE32 (pushBE32 (pushBE32 out b.w0) b.w1) b.w2) b.w3

def Block.toBytes (b : Block) : ByteArray := b.pushTo (ByteArray.emptyWithCapacity 16)

/-- Encrypt a 16-byte block with an expanded key. -/
def AesKey.encryptBlock (k : AesKey) (block : ByteArray) : ByteArray :=
  (k.encryptWords (Block.ofBytes block)).toBytes

/-- AES-256 single block encryption: `key` is 32 bytes, `block` 16 bytes. -/
def aes256EncryptBlock (key block : ByteArray) : ByteArray :=
  (AesKey.expand key).encryptBlock block

/-! ### `List UInt8` wrapper -/

def aes256EncryptBlockL (key block : Bytes) : Bytes :=
  toList (aes256EncryptBlock (ofList key) (ofList block))

end MlaModel.Crypto

/-
  CryptoLean.Hmac — HMAC (RFC 2104) and HKDF (RFC 5869) over SHA-256 / SHA-512.

  API (ByteArray):
    `hmacSha256 key msg`, `hmacSha512 key msg`
    `hkdfExtract256 salt ikm`, `hkdfExpand256 prk info len`, `hkdf256 salt ikm info len`
    `hkdfExtract512 salt ikm`, `hkdfExpand512 prk info len`, `hkdf512 salt ikm info len`
  `List UInt8` wrappers: `hmacSha256L`, `hmacSha512L`, `hkdf256L`, `hkdf512L`.

  An empty salt is replaced by HashLen zero bytes (RFC 5869 §2.2; this is also
  what the Rust `hkdf` crate does for `salt = None`, and is HMAC-equivalent to
  an empty key anyway).  `len` is not checked against 255·HashLen: the counter
  byte simply wraps; callers must keep `len ≤ 255·HashLen` (the Rust crate
  returns an error beyond that).
-/
import MlaModel.Crypto.Sha2

namespace MlaModel.Crypto

/-- Generic HMAC over a hash with block size `blk`. -/
def hmacWith (hash : ByteArray → ByteArray) (blk : Nat) (key msg : ByteArray) : ByteArray :=
  Id.run do
    let k := if key.size > blk then hash key else key
    let mut ipad := ByteArray.emptyWithCapacity (blk + msg.size)
    let mut opad := ByteArray.emptyWithCapacity (blk + 64)
    for i in [0:blk] do
      let b := byteAt k i
      ipad := ipad.push (b ^^^ 0x36)
      opad := opad.push (b ^^^ 0x5c)
    return hash (opad ++ hash (ipad ++ msg))

def hmacSha256 (key msg : ByteArray) : ByteArray := hmacWith sha256 64 key msg
def hmacSha512 (key msg : ByteArray) : ByteArray := hmacWith sha512 128 key msg

/-- HKDF-Expand: `T(i) = HMAC(prk, T(i-1) ‖ info ‖ i)`, output truncated to `len`. -/
def hkdfExpandWith (hmac : ByteArray → ByteArray → ByteArray) (hashLen : Nat)
    (prk info : ByteArray) (len : Nat) : ByteArray := Id.run do
  let mut okm := ByteArray.emptyWithCapacity (len + hashLen)
  let mut t := ByteArray.empty
  for i in [0:(len + hashLen - 1) / hashLen] do
    t := hmac prk ((t ++ info).push (i + 1).toUInt8)
    okm := okm ++ t
  return okm.extract 0 len

def hkdfExtract256 (salt ikm : ByteArray) : ByteArray :=
  hmacSha256 (if salt.size == 0 then zeros 32 else salt) ikm
def hkdfExpand256 (prk info : ByteArray) (len : Nat) : ByteArray :=
  hkdfExpandWith hmacSha256 32 prk info len
def hkdf256 (salt ikm info : ByteArray) (len : Nat) : ByteArray :=
  hkdfExpand256 (hkdfExtract256 salt ikm) info len

def hkdfExtract512 (salt ikm : ByteArray) : ByteArray :=
  hmacSha512 (if salt.size == 0 then zeros 64 else salt) ikm
def hkdfExpand512 (prk info : ByteArray) (len : Nat) : ByteArray :=
  hkdfExpandWith hmacSha512 64 prk info len
def hkdf512 (salt ikm info : ByteArray) (len : Nat) : ByteArray :=
  hkdfExpand512 (hkdfExtract512 salt ikm) info len

/-! ### `List UInt8` wrappers -/

def hmacSha256L (key msg : Bytes) : Bytes := toList (hmacSha256 (ofList key) (ofList msg))
def hmacSha512L (key msg : Bytes) : Bytes := toList (hmacSha512 (ofList key) (ofList msg))
def hkdf256L (salt ikm info : Bytes) (len : Nat) : Bytes :=
  toList (hkdf256 (ofList salt) (ofList ikm) (ofList info) len)
def hkdf512L (salt ikm info : Bytes) (len : Nat) : Bytes :=
  toList (hkdf512 (ofList salt) (ofList ikm) (ofList info) len)

end MlaModel.Crypto

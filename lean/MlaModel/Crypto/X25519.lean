/-
  CryptoLean.X25519 — X25519 (RFC 7748) and the Ed25519→X25519 conversions used by MLA keys.

  API (ByteArray, all 32-byte little-endian strings):
    `clampScalar k`                   k[0] &= 248; k[31] &= 127; k[31] |= 64
    `x25519 scalar u`                 scalar is clamped, bit 255 of `u` is ignored,
                                      non-canonical `u` (≥ p) is reduced mod p
    `x25519Base scalar`               `x25519 scalar 9`
    `edwardsYToMontgomeryU y32`       u = (1+y)/(1−y) mod p, sign bit (bit 255) ignored
    `ed25519SeedToX25519Scalar seed`  clampScalar (SHA-512(seed)[0..32])
  `List UInt8` wrappers: `clampScalarL`, `x25519L`, `x25519BaseL`,
  `edwardsYToMontgomeryUL`, `ed25519SeedToX25519ScalarL`.

  Field arithmetic is plain `Nat` arithmetic modulo p = 2^255 − 19 (not constant
  time — this is a model, not a production implementation).
  `edwardsYToMontgomeryU` does *not* check that `y` is the y-coordinate of a curve
  point (curve25519-dalek's `decompress` returns `None` in that case); for y = 1
  (the identity) the result is 0, like dalek (0⁻¹ := 0).
-/
import MlaModel.Crypto.Sha2

namespace MlaModel.Crypto

namespace Fe

/-- The field prime 2^255 − 19. -/
def p : Nat := 2 ^ 255 - 19

@[inline] def add (a b : Nat) : Nat := (a + b) % p
@[inline] def sub (a b : Nat) : Nat := (a + p - b % p) % p
@[inline] def mul (a b : Nat) : Nat := (a * b) % p
@[inline] def sq (a : Nat) : Nat := (a * a) % p

/-- `a ^ e mod p`, square-and-multiply over the `bits` low bits of `e`, MSB first. -/
def pow (a e : Nat) (bits : Nat := 255) : Nat := Id.run do
  let mut r := 1
  for i in [0:bits] do
    r := sq r
    if e.testBit (bits - 1 - i) then r := mul r a
  return r

/-- Inverse by Fermat (`inv 0 = 0`). -/
def inv (a : Nat) : Nat := pow a (p - 2)

end Fe

/-- Little-endian decoding of a byte string. -/
def decodeLE (b : ByteArray) : Nat := Id.run do
  let mut n := 0
  for i in [0:b.size] do
    n := n ||| ((byteAt b i).toNat <<< (8 * i))
  return n

/-- Little-endian encoding on `len` bytes (truncating). -/
def encodeLE (n len : Nat) : ByteArray := Id.run do
  let mut out := ByteArray.emptyWithCapacity len
  for i in [0:len] do
    out := out.push (n >>> (8 * i)).toUInt8
  return out

/-- RFC 7748 §5 `decodeScalar25519` clamping, on the first 32 bytes of `k`. -/
def clampScalar (k : ByteArray) : ByteArray :=
  let k := (k.extract 0 32) ++ zeros (32 - k.size)
  let k := k.set! 0 (byteAt k 0 &&& 248)
  k.set! 31 ((byteAt k 31 &&& 127) ||| 64)

/-- Montgomery ladder state. -/
private structure Ladder where
  x2 : Nat
  z2 : Nat
  x3 : Nat
  z3 : Nat

/-- One ladder step (RFC 7748 §5) after the conditional swap has been applied. -/
private def ladderStep (x1 : Nat) (s : Ladder) : Ladder :=
  let a := Fe.add s.x2 s.z2
  let aa := Fe.sq a
  let b := Fe.sub s.x2 s.z2
  let bb := Fe.sq b
  let e := Fe.sub aa bb
  let c := Fe.add s.x3 s.z3
  let d := Fe.sub s.x3 s.z3
  let da := Fe.mul d a
  let cb := Fe.mul c b
  { x3 := Fe.sq (Fe.add da cb)
    z3 := Fe.mul x1 (Fe.sq (Fe.sub da cb))
    x2 := Fe.mul aa bb
    z2 := Fe.mul e (Fe.add aa (Fe.mul 121665 e)) }

@[inline] private def Ladder.swap (s : Ladder) : Ladder := ⟨s.x3, s.z3, s.x2, s.z2⟩

/-- Scalar multiplication on the Montgomery u-line: `k` already clamped/decoded, `u < p`. -/
def scalarMultU (k u : Nat) : Nat := Id.run do
  let mut s : Ladder := ⟨1, 0, u, 1⟩
  let mut swap := false
  for i in [0:255] do
    let kt := k.testBit (254 - i)
    if swap != kt then s := s.swap
    swap := kt
    s := ladderStep u s
  if swap then s := s.swap
  return Fe.mul s.x2 (Fe.inv s.z2)

/-- X25519(scalar, u) of RFC 7748. -/
def x25519 (scalar u : ByteArray) : ByteArray :=
  let k := decodeLE (clampScalar scalar)
  let un := (decodeLE (u.extract 0 32) % 2 ^ 255) % Fe.p
  encodeLE (scalarMultU k un) 32

/-- The base point u = 9. -/
def x25519BasePoint : ByteArray := encodeLE 9 32

/-- Public key of a secret scalar. -/
def x25519Base (scalar : ByteArray) : ByteArray := x25519 scalar x25519BasePoint

/-- Birational map Edwards → Montgomery on the compressed form: u = (1+y)/(1−y). -/
def edwardsYToMontgomeryU (y32 : ByteArray) : ByteArray :=
  let y := (decodeLE (y32.extract 0 32) % 2 ^ 255) % Fe.p
  encodeLE (Fe.mul (Fe.add 1 y) (Fe.inv (Fe.sub 1 y))) 32

/-- X25519 secret scalar (clamped) derived from an Ed25519 32-byte seed. -/
def ed25519SeedToX25519Scalar (seed : ByteArray) : ByteArray :=
  clampScalar ((sha512 seed).extract 0 32)

/-! ### `List UInt8` wrappers -/

def clampScalarL (k : Bytes) : Bytes := toList (clampScalar (ofList k))
def x25519L (scalar u : Bytes) : Bytes := toList (x25519 (ofList scalar) (ofList u))
def x25519BaseL (scalar : Bytes) : Bytes := toList (x25519Base (ofList scalar))
def edwardsYToMontgomeryUL (y : Bytes) : Bytes := toList (edwardsYToMontgomeryU (ofList y))
def ed25519SeedToX25519ScalarL (seed : Bytes) : Bytes :=
  toList (ed25519SeedToX25519Scalar (ofList seed))

end MlaModel.Crypto

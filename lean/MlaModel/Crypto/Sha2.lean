/-
  CryptoLean.Sha2 — SHA-256 and SHA-512 (FIPS 180-4), one-shot.

  API (ByteArray):   `sha256 data` (32 bytes), `sha512 data` (64 bytes)
  `List UInt8` wrappers: `sha256L`, `sha512L`.

  The round constants and initial hash values are *computed* at initialisation
  from their FIPS definition (fractional parts of the cube / square roots of the
  first primes; the SHA-256 ones are the top 32 bits of the SHA-512 ones) instead
  of being typed in; the test-suite checks them through the standard vectors.
  The message length must be < 2^61 bytes.
-/
import MlaModel.Crypto.Util

namespace MlaModel.Crypto

/-! ### Constants -/

/-- The first `n` primes, by trial division. -/
private def firstPrimes (n : Nat) : Array Nat := Id.run do
  let mut ps : Array Nat := #[]
  for c in [2:500] do
    if ps.size < n && ps.all (fun p => c % p != 0) then ps := ps.push c
  return ps

/-- `⌊n^(1/k)⌋` for results below `2^bits` (bitwise search). -/
private def iroot (k n bits : Nat) : Nat := Id.run do
  let mut r := 0
  for i in [0:bits] do
    let c := r + 2 ^ (bits - 1 - i)
    if c ^ k ≤ n then r := c
  return r

/-- 64 fractional bits of `p^(1/k)`. -/
private def fracRoot (k p : Nat) : UInt64 := (iroot k (p * 2 ^ (64 * k)) 72).toUInt64

/-- SHA-512 round constants (80 words). -/
def k512 : Array UInt64 := (firstPrimes 80).map (fracRoot 3)
/-- SHA-512 initial hash value. -/
def iv512 : Array UInt64 := (firstPrimes 8).map (fracRoot 2)
/-- SHA-256 round constants (64 words). -/
def k256 : Array UInt32 := (k512.extract 0 64).map fun (x : UInt64) => (x >>> 32).toUInt32
/-- SHA-256 initial hash value. -/
def iv256 : Array UInt32 := iv512.map fun (x : UInt64) => (x >>> 32).toUInt32

/-- `data[from..] ‖ 0x80 ‖ 0… ‖ BE(bitlen)` padded to a multiple of `blk` bytes,
    with a length field of `lenBytes` bytes (8 for SHA-256, 16 for SHA-512). -/
private def padTail (data : ByteArray) (start blk lenBytes : Nat) : ByteArray := Id.run do
  let rem := data.size - start
  let total := if rem + 1 + lenBytes ≤ blk then blk else 2 * blk
  let mut t := (data.extract start data.size).push 0x80
  for _ in [0:total - rem - 1 - 8] do
    t := t.push 0
  return pushBE64 t (data.size.toUInt64 <<< 3)

/-! ### SHA-256 -/

@[inline] private def rotr32 (x : UInt32) (k : UInt32) : UInt32 := (x >>> k) ||| (x <<< (32 - k))

structure State256 where
  a : UInt32
  b : UInt32
  c : UInt32
  d : UInt32
  e : UInt32
  f : UInt32
  g : UInt32
  h : UInt32

private def rounds256 (w : Array UInt32) :
    (fuel i : Nat) → (a b c d e f g h : UInt32) → State256
  | 0, _, a, b, c, d, e, f, g, h => ⟨a, b, c, d, e, f, g, h⟩
  | fuel+1, i, a, b, c, d, e, f, g, h =>
    let s1 := rotr32 e 6 ^^^ rotr32 e 11 ^^^ rotr32 e 25
    let ch := (e &&& f) ^^^ (~~~e &&& g)
    let t1 := h + s1 + ch + k256[i]! + w[i]!
    let s0 := rotr32 a 2 ^^^ rotr32 a 13 ^^^ rotr32 a 22
    let maj := (a &&& b) ^^^ (a &&& c) ^^^ (b &&& c)
    rounds256 w fuel (i + 1) (t1 + s0 + maj) a b c (d + t1) e f g

/-- Compression function on the 64-byte block of `data` at `off`. -/
private def compress256 (s : State256) (data : ByteArray) (off : Nat) : State256 := Id.run do
  let mut w : Array UInt32 := Array.emptyWithCapacity 64
  for i in [0:16] do
    w := w.push (loadBE32 data (off + 4 * i))
  for i in [16:64] do
    let x := w[i - 15]!
    let y := w[i - 2]!
    let s0 := rotr32 x 7 ^^^ rotr32 x 18 ^^^ (x >>> 3)
    let s1 := rotr32 y 17 ^^^ rotr32 y 19 ^^^ (y >>> 10)
    w := w.push (w[i - 16]! + s0 + w[i - 7]! + s1)
  let r := rounds256 w 64 0 s.a s.b s.c s.d s.e s.f s.g s.h
  return ⟨s.a + r.a, s.b + r.b, s.c + r.c, s.d + r.d, s.e + r.e, s.f + r.f, s.g + r.g, s.h + r.h⟩

private def blocks256 (data : ByteArray) : (fuel off : Nat) → State256 → State256
  | 0, _, s => s
  | fuel+1, off, s => blocks256 data fuel (off + 64) (compress256 s data off)

def sha256 (data : ByteArray) : ByteArray :=
  let iv := iv256
  let s0 : State256 := ⟨iv[0]!, iv[1]!, iv[2]!, iv[3]!, iv[4]!, iv[5]!, iv[6]!, iv[7]!⟩
  let full := data.size / 64
  let s := blocks256 data full 0 s0
  let tail := padTail data (64 * full) 64 8
  let s := blocks256 tail (tail.size / 64) 0 s
  [s.a, s.b, s.c, s.d, s.e, s.f, s.g, s.h].foldl pushBE32 (ByteArray.emptyWithCapacity 32)

/-! ### SHA-512 -/

@[inline] private def rotr64 (x : UInt64) (k : UInt64) : UInt64 := (x >>> k) ||| (x <<< (64 - k))

structure State512 where
  a : UInt64
  b : UInt64
  c : UInt64
  d : UInt64
  e : UInt64
  f : UInt64
  g : UInt64
  h : UInt64

private def rounds512 (w : Array UInt64) :
    (fuel i : Nat) → (a b c d e f g h : UInt64) → State512
  | 0, _, a, b, c, d, e, f, g, h => ⟨a, b, c, d, e, f, g, h⟩
  | fuel+1, i, a, b, c, d, e, f, g, h =>
    let s1 := rotr64 e 14 ^^^ rotr64 e 18 ^^^ rotr64 e 41
    let ch := (e &&& f) ^^^ (~~~e &&& g)
    let t1 := h + s1 + ch + k512[i]! + w[i]!
    let s0 := rotr64 a 28 ^^^ rotr64 a 34 ^^^ rotr64 a 39
    let maj := (a &&& b) ^^^ (a &&& c) ^^^ (b &&& c)
    rounds512 w fuel (i + 1) (t1 + s0 + maj) a b c (d + t1) e f g

/-- Compression function on the 128-byte block of `data` at `off`. -/
private def compress512 (s : State512) (data : ByteArray) (off : Nat) : State512 := Id.run do
  let mut w : Array UInt64 := Array.emptyWithCapacity 80
  for i in [0:16] do
    w := w.push (loadBE64 data (off + 8 * i))
  for i in [16:80] do
    let x := w[i - 15]!
    let y := w[i - 2]!
    let s0 := rotr64 x 1 ^^^ rotr64 x 8 ^^^ (x >>> 7)
    let s1 := rotr64 y 19 ^^^ rotr64 y 61 ^^^ (y >>> 6)
    w := w.push (w[i - 16]! + s0 + w[i - 7]! + s1)
  let r := rounds512 w 80 0 s.a s.b s.c s.d s.e s.f s.g s.h
  return ⟨s.a + r.a, s.b + r.b, s.c + r.c, s.d + r.d, s.e + r.e, s.f + r.f, s.g + r.g, s.h + r.h⟩

private def blocks512 (data : ByteArray) : (fuel off : Nat) → State512 → State512
  | 0, _, s => s
  | fuel+1, off, s => blocks512 data fuel (off + 128) (compress512 s data off)

def sha512 (data : ByteArray) : ByteArray :=
  let iv := iv512
  let s0 : State512 := ⟨iv[0]!, iv[1]!, iv[2]!, iv[3]!, iv[4]!, iv[5]!, iv[6]!, iv[7]!⟩
  let full := data.size / 128
  let s := blocks512 data full 0 s0
  let tail := padTail data (128 * full) 128 16
  let s := blocks512 tail (tail.size / 128) 0 s
  [s.a, s.b, s.c, s.d, s.e, s.f, s.g, s.h].foldl pushBE64 (ByteArray.emptyWithCapacity 64)

/-! ### `List UInt8` wrappers -/

def sha256L (data : Bytes) : Bytes := toList (sha256 (ofList data))
def sha512L (data : Bytes) : Bytes := toList (sha512 (ofList data))

end MlaModel.Crypto

/-
  MlaModel.Writer — the `ArchiveWriter` state machine (mla/src/lib.rs:682-1037) above the layers.

  `step` returns the new state, the result class and **the bytes emitted** into the position layer
  (the plaintext stream the layers then transform).  The state holds exactly what the Rust struct
  holds: `files_info`, `ids_info`, the opened ids with their running hash (modelled by the bytes
  hashed so far — a ghost of the `Sha256` state), `next_id`, `current_id`, the position counter.
-/
import MlaModel.Blocks
namespace MlaModel

structure FileInfo where
  offsets : List Nat
  size : Nat
  eof : Nat
deriving Repr, DecidableEq, Inhabited

inductive Op where
  | start (name : Bytes)
  | append (id size : Nat) (src : Bytes)
  | end_ (id : Nat)
  | add (name : Bytes) (size : Nat) (src : Bytes)
  | flush
  | finalize
deriving Repr, DecidableEq, Inhabited

inductive Res where
  | ok
  | id (i : Nat)
  | err (e : Err)
deriving Repr, DecidableEq, Inhabited

def Res.isOk : Res → Bool
  | .err _ => false
  | _ => true

structure WState where
  finalized : Bool := false
  nextId : Nat := 0
  cur : Nat := 0
  pos : Nat := 0
  names : List (Bytes × Nat) := []         -- files_info, insertion order
  info : List (Nat × FileInfo) := []       -- ids_info, insertion order
  opened : List (Nat × Bytes) := []        -- ids (in order) with the bytes hashed so far
deriving Repr, DecidableEq, Inhabited

def WState.init : WState := {}

/-! association-list helpers -/
def alookup {α} (k : Nat) : List (Nat × α) → Option α
  | [] => none
  | (k', v) :: r => if k' = k then some v else alookup k r

def aupdate {α} (k : Nat) (f : α → α) : List (Nat × α) → List (Nat × α)
  | [] => []
  | (k', v) :: r => if k' = k then (k', f v) :: r else (k', v) :: aupdate k f r

def aerase {α} (k : Nat) : List (Nat × α) → List (Nat × α)
  | [] => []
  | (k', v) :: r => if k' = k then r else (k', v) :: aerase k r

def nameLookup (n : Bytes) : List (Bytes × Nat) → Option Nat
  | [] => none
  | (n', v) :: r => if n' = n then some v else nameLookup n r

/-- `mark_continuous_block` -/
def WState.markContinuous (s : WState) (id : Nat) : WState :=
  if id ≠ s.cur then
    { s with info := aupdate id (fun fi => { fi with offsets := fi.offsets ++ [s.pos] }) s.info,
             cur := id }
  else s

/-! bincode (fixint, little-endian) of the footer map `String ↦ FileInfo` -/
def encFileInfo (fi : FileInfo) : Bytes :=
  le64 fi.offsets.length ++ (fi.offsets.map le64).flatten ++ le64 fi.size ++ le64 fi.eof

def encFooterEntries (names : List (Bytes × Nat)) (info : List (Nat × FileInfo)) : Bytes :=
  (names.map fun (n, id) =>
    le64 n.length ++ n ++ encFileInfo ((alookup id info).getD ⟨[], 0, 0⟩)).flatten

/-- `ArchiveFooter::serialize_into`: map, then its length as u32 -/
def encFooter (names : List (Bytes × Nat)) (info : List (Nat × FileInfo)) : Bytes :=
  let body := le64 names.length ++ encFooterEntries names info
  body ++ le32 body.length

variable (P : Params) (H : Bytes → Bytes)

def stepStart (s : WState) (name : Bytes) : WState × Res × Bytes :=
  if s.finalized then (s, .err .state, [])
  else if (nameLookup name s.names).isSome then (s, .err .dupName, [])
  else if P.nameMax < name.length then (s, .err .nameTooLong, [])
  else
    let id := s.nextId
    let e := (Block.start id name).encode
    ({ s with nextId := id + 1, cur := id,
              names := s.names ++ [(name, id)],
              info := s.info ++ [(id, ⟨[s.pos], 0, 0⟩)],
              opened := s.opened ++ [(id, [])],
              pos := s.pos + e.length }, .id id, e)

def stepAppend (s : WState) (id size : Nat) (src : Bytes) : WState × Res × Bytes :=
  if s.finalized then (s, .err .state, [])
  else match alookup id s.opened with
  | none => (s, .err .state, [])
  | some _ =>
    if size = 0 then (s, .ok, [])
    else
      let s1 := s.markContinuous id
      let data := src.take size
      let e := tContent :: (le64 id ++ le64 size ++ data)
      let s2 : WState :=
        { s1 with info := aupdate id (fun fi => { fi with size := fi.size + size }) s1.info,
                  opened := aupdate id (fun h => h ++ data) s1.opened,
                  pos := s1.pos + e.length }
      (s2, if data.length < size then .err .short else .ok, e)

def stepEnd (s : WState) (id : Nat) : WState × Res × Bytes :=
  if s.finalized then (s, .err .state, [])
  else match alookup id s.opened with
  | none => (s, .err .state, [])
  | some hashed =>
    let s1 := { s with opened := aerase id s.opened }
    let s2 := s1.markContinuous id
    let e := (Block.eof id (H hashed)).encode
    ({ s2 with info := aupdate id (fun fi => { fi with eof := s2.pos }) s2.info,
               pos := s2.pos + e.length }, .ok, e)

def stepFinalize (s : WState) : WState × Res × Bytes :=
  if s.finalized then (s, .err .state, [])
  else if s.opened ≠ [] then (s, .err .state, [])
  else
    let e := Block.eoad.encode ++ encFooter s.names s.info
    ({ s with finalized := true, pos := s.pos + e.length }, .ok, e)

/-- `add_file` = `start_file; append_file_content; end_file`, stopping at the first error. -/
def stepAdd (s : WState) (name : Bytes) (size : Nat) (src : Bytes) : WState × Res × Bytes :=
  match stepStart P s name with
  | (s1, .id id, e1) =>
    match stepAppend s1 id size src with
    | (s2, .err e, e2) => (s2, .err e, e1 ++ e2)
    | (s2, _, e2) =>
      match stepEnd H s2 id with
      | (s3, .err e, e3) => (s3, .err e, e1 ++ e2 ++ e3)
      | (s3, _, e3) => (s3, .ok, e1 ++ e2 ++ e3)
  | (s1, r, e1) => (s1, r, e1)

def Writer.step (s : WState) : Op → WState × Res × Bytes
  | .start name => stepStart P s name
  | .append id size src => stepAppend s id size src
  | .end_ id => stepEnd H s id
  | .add name size src => stepAdd P H s name size src
  | .flush => (s, .ok, [])
  | .finalize => stepFinalize s

/-- Run an op list: final state, per-op results, emitted stream. -/
def Writer.runFrom (s : WState) : List Op → WState × List Res × Bytes
  | [] => (s, [], [])
  | op :: ops =>
    let (s1, r, e) := Writer.step P H s op
    let (s2, rs, es) := Writer.runFrom s1 ops
    (s2, r :: rs, e ++ es)

def Writer.run (ops : List Op) : WState × List Res × Bytes := Writer.runFrom P H WState.init ops

/-- The footer index as the reader sees it: name ↦ FileInfo. -/
def WState.index (s : WState) : List (Bytes × FileInfo) :=
  s.names.map fun (n, id) => (n, (alookup id s.info).getD ⟨[], 0, 0⟩)

end MlaModel

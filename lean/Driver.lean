import Driver.Util
import Driver.Core
import Driver.Layers

import Driver.Util
import Driver.Core
import Driver.Layers
import Driver.CApi
import Driver.Keys
import Driver.Cli

import Driver.Util
import Driver.Core
import Driver.Layers
import Driver.CApi
import Driver.Keys
import Driver.Cli
import Driver.Format
import Driver.Stack

import Driver.Util
import Driver.Core

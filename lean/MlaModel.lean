import MlaModel.Basic
import MlaModel.Blocks
import MlaModel.Writer
import MlaModel.Reader
import MlaModel.Spec
import MlaModel.Proofs.Blocks

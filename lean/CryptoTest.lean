/-
  cryptotest — known-answer tests for CryptoLean (prints PASS/FAIL per vector,
  exit code 1 on any failure) followed by a throughput measurement.
  `cryptotest -q` prints only failures and the summary.
-/
import MlaModel.Crypto.Util
import MlaModel.Crypto.Aes
import MlaModel.Crypto.Gcm
import MlaModel.Crypto.Sha2
import MlaModel.Crypto.Hmac
import MlaModel.Crypto.X25519
import MlaModel.Crypto.ChaCha
import MlaModel.Crypto.Test.RefVectors

open MlaModel.Crypto

structure T where
  quiet : Bool
  pass : IO.Ref Nat
  fail : IO.Ref Nat

def T.check (t : T) (name : String) (ok : Bool) (detail : String := "") : IO Unit := do
  if ok then
    t.pass.modify (· + 1)
    unless t.quiet do IO.println s!"PASS {name}"
  else
    t.fail.modify (· + 1)
    IO.println s!"FAIL {name} {detail}"

def T.eqHex (t : T) (name : String) (got : ByteArray) (expected : String) : IO Unit :=
  t.check name (hexEncode got == expected.toLower) s!"got {hexEncode got} expected {expected}"

def hx (s : String) : ByteArray := if s == "-" then ByteArray.empty else hexDecode s
def str (s : String) : ByteArray := s.toUTF8

/-- Same pattern generator as the Rust reference: byte i = a·i + b + (i >> 8) mod 256. -/
def pat (n : Nat) (a b : UInt32) : ByteArray := Id.run do
  let mut out := ByteArray.emptyWithCapacity n
  for i in [0:n] do
    out := out.push (a * i.toUInt32 + b + (i >>> 8).toUInt32).toUInt8
  return out

def rep (n : Nat) (b : UInt8) : ByteArray := ⟨Array.replicate n b⟩

def testAes (t : T) : IO Unit := do
  t.check "aes/sbox" (byteAt sbox 0 == 0x63 && byteAt sbox 1 == 0x7c && byteAt sbox 0x53 == 0xed
    && byteAt sbox 0xff == 0x16)
  t.eqHex "aes/fips197-C.3"
    (aes256EncryptBlock (hx "000102030405060708090a0b0c0d0e0f101112131415161718191a1b1c1d1e1f")
      (hx "00112233445566778899aabbccddeeff")) "8ea2b7ca516745bfeafc49904b496089"
  let k := AesKey.expand (hx "603deb1015ca71be2b73aef0857d77811f352c073b6108d72d9810a30914dff4")
  t.check "aes/fips197-A.3-keyexp" (k.rk.size == 60 && k.rk[8]! == 0x9ba35411 && k.rk[9]! == 0x8e6925af
    && k.rk[12]! == 0xa8b09c1a && k.rk[59]! == 0x706c631e)
  t.eqHex "aes/list-wrapper"
    (ofList (aes256EncryptBlockL (toList (hx "000102030405060708090a0b0c0d0e0f101112131415161718191a1b1c1d1e1f"))
      (toList (hx "00112233445566778899aabbccddeeff")))) "8ea2b7ca516745bfeafc49904b496089"

def gcmCase (t : T) (name : String) (key nonce pt aad ct tag : ByteArray) : IO Unit := do
  let (c, g) := gcmEncrypt key nonce aad pt
  let okEnc := bytesEq c ct && bytesEq g tag
  let okTag := bytesEq (gcmTag key nonce aad ct) tag
  let okDec := match gcmDecrypt key nonce aad ct tag with
    | some p => bytesEq p pt
    | none => false
  -- a corrupted tag must be rejected
  let bad := tag.set! 0 (byteAt tag 0 ^^^ 1)
  let okRej := (gcmDecrypt key nonce aad ct bad).isNone
  -- pieces: CTR keystream from counter 2, GHASH with H = E_K(0), tag mask E_K(nonce‖1)
  let ks := ctrKeystream key nonce 2 pt.size
  let h := aes256EncryptBlock key (zeros 16)
  let mask := ctrKeystream key nonce 1 16
  let okPieces := bytesEq (xorBytes pt ks) ct && bytesEq (xorBytes (ghash h aad ct) mask) tag
  t.check name (okEnc && okTag && okDec && okRej && okPieces)
    s!"enc={okEnc} tag={okTag} dec={okDec} rej={okRej} pieces={okPieces} ct={hexEncode c} tag={hexEncode g}"

def testGcm (t : T) : IO Unit := do
  let z32 := zeros 32
  let z12 := zeros 12
  let k := hx "feffe9928665731c6d6a8f9467308308feffe9928665731c6d6a8f9467308308"
  let iv := hx "cafebabefacedbaddecaf888"
  let p := hx "d9313225f88406e5a55909c5aff5269a86a7a9531534f7da2e4c303d8a318a721c3c0c95956809532fcf0e2449a6b525b16aedf5aa0de657ba637b391aafd255"
  let c := hx "522dc1f099567d07f47f37a32a84427d643a8cdcbfe5c0c97598a2bd2555d1aa8cb08e48590dbb3da7b08b1056828838c5f61e6393ba7a0abcc9f662898015ad"
  gcmCase t "gcm/nist-tc13" z32 z12 .empty .empty .empty (hx "530f8afbc74536b9a963b4f1c4cb738b")
  gcmCase t "gcm/nist-tc14" z32 z12 (zeros 16) .empty (hx "cea7403d4d606b6e074ec5d3baf39d18")
    (hx "d0d1c8a799996bf0265b98b5d48ab919")
  gcmCase t "gcm/nist-tc15" k iv p .empty c (hx "b094dac5d93471bdec1a502270e3cc6c")
  gcmCase t "gcm/nist-tc16" k iv (p.extract 0 60) (hx "feedfacedeadbeeffeedfacedeadbeefabaddad2")
    (c.extract 0 60) (hx "76fc6ece0f4e1768cddf8853bb2d551b")
  let (cl, tl) := gcmEncryptL (toList k) (toList iv) (toList (hx "feedfacedeadbeeffeedfacedeadbeefabaddad2"))
    (toList (p.extract 0 60))
  t.check "gcm/list-wrapper" (cl == toList (c.extract 0 60) && hexEncode (ofList tl) == "76fc6ece0f4e1768cddf8853bb2d551b"
    && gcmDecryptL (toList k) (toList iv) (toList (hx "feedfacedeadbeeffeedfacedeadbeefabaddad2")) cl tl
        == some (toList (p.extract 0 60)))
  -- 32-bit counter wrap-around (inc32)
  t.check "gcm/ctr-wrap" (bytesEq (ctrKeystream k iv 0xffffffff 32)
    (ctrKeystream k iv 0xffffffff 16 ++ ctrKeystream k iv 0 16))
  -- all NIST CAVS vectors shipped with the MLA repository
  let mut i := 0
  for line in cavsVectors.splitOn "\n" do
    match line.splitOn " " with
    | [key, nonce, pt, aad, ct, tag] =>
      gcmCase t s!"gcm/cavs-{i} pt={(hx pt).size} aad={(hx aad).size}" (hx key) (hx nonce) (hx pt) (hx aad) (hx ct) (hx tag)
      i := i + 1
    | _ => pure ()
  t.check "gcm/cavs-count" (i == 375) s!"{i}"

def testSha (t : T) : IO Unit := do
  t.check "sha/constants" (k512.size == 80 && k256.size == 64 && k512[0]! == 0x428a2f98d728ae22
    && k512[79]! == 0x6c44198c4a475817 && iv512[0]! == 0x6a09e667f3bcc908 && iv512[7]! == 0x5be0cd19137e2179
    && k256[63]! == 0xc67178f2 && iv256[7]! == 0x5be0cd19)
  t.eqHex "sha256/empty" (sha256 .empty) "e3b0c44298fc1c149afbf4c8996fb92427ae41e4649b934ca495991b7852b855"
  t.eqHex "sha256/abc" (sha256 (str "abc")) "ba7816bf8f01cfea414140de5dae2223b00361a396177a9cb410ff61f20015ad"
  t.eqHex "sha256/448bits" (sha256 (str "abcdbcdecdefdefgefghfghighijhijkijkljklmklmnlmnomnopnopq"))
    "248d6a61d20638b8e5c026930c3e6039a33ce45964ff2167f6ecedd419db06c1"
  let ma := rep 1000000 0x61
  t.eqHex "sha256/million-a" (sha256 ma) "cdc76e5c9914fb9281a1c7e284d73e67f1809a48a497200e046d39ccc7112cd0"
  t.eqHex "sha512/empty" (sha512 .empty)
    "cf83e1357eefb8bdf1542850d66d8007d620e4050b5715dc83f4a921d36ce9ce47d0d13c5d85f2b0ff8318d2877eec2f63b931bd47417a81a538327af927da3e"
  t.eqHex "sha512/abc" (sha512 (str "abc"))
    "ddaf35a193617abacc417349ae20413112e6fa4e89a97ea20a9eeee64b55d39a2192992a274fc1a836ba3c23a3feebbd454d4423643ce80e2a9ac94fa54ca49f"
  t.eqHex "sha512/896bits" (sha512 (str "abcdefghbcdefghicdefghijdefghijkefghijklfghijklmghijklmnhijklmnoijklmnopjklmnopqklmnopqrlmnopqrsmnopqrstnopqrstu"))
    "8e959b75dae313da8cf4f72814fc143f8f7779c6eb9f7fa17299aeadb6889018501d289e4900f7e4331b99dec4b5433ac7d329eeb6dd26545e96e55b874be909"
  t.eqHex "sha512/million-a" (sha512 ma)
    "e718483d0ce769644e2e42c7bc15b4638e1f98b13b2044285632a803afa973ebde0ff244877ea60a4cb0432ce577c31beb009c5c2c49aa2e4eadb217ad8cc09b"
  t.check "sha/list-wrapper" (sha256L (toList (str "abc")) == toList (sha256 (str "abc"))
    && sha512L (toList (str "abc")) == toList (sha512 (str "abc")))

def testHmacHkdf (t : T) : IO Unit := do
  t.eqHex "hmac256/rfc4231-1" (hmacSha256 (rep 20 0x0b) (str "Hi There"))
    "b0344c61d8db38535ca8afceaf0bf12b881dc200c9833da726e9376c2e32cff7"
  t.eqHex "hmac512/rfc4231-1" (hmacSha512 (rep 20 0x0b) (str "Hi There"))
    "87aa7cdea5ef619d4ff0b4241a1d6cb02379f4e2ce4ec2787ad0b30545e17cdedaa833b7d6b8a702038b274eaea3f4e4be9d914eeb61f1702e696c203a126854"
  t.eqHex "hmac256/rfc4231-2" (hmacSha256 (str "Jefe") (str "what do ya want for nothing?"))
    "5bdcc146bf60754e6a042426089575c75a003f089d2739839dec58b964ec3843"
  t.eqHex "hmac512/rfc4231-2" (hmacSha512 (str "Jefe") (str "what do ya want for nothing?"))
    "164b7a7bfcf819e2e395fbe73b56e0a387bd64222e831fd610270cd7ea2505549758bf75c05a994a6d034f65f8f0e6fdcaeab1a34d4a6b4b636e070a38bce737"
  -- RFC 4231 case 6: 131-byte key (longer than both block sizes)
  t.eqHex "hmac256/rfc4231-6" (hmacSha256 (rep 131 0xaa) (str "Test Using Larger Than Block-Size Key - Hash Key First"))
    "60e431591ee0b67f0d8a26aacbf5b77f8e0bc6213728c5140546040f0ee37f54"
  t.eqHex "hmac512/rfc4231-6" (hmacSha512 (rep 131 0xaa) (str "Test Using Larger Than Block-Size Key - Hash Key First"))
    "80b24263c7c1a3ebb71493c1dd7be8b49b46d1f41b4aeec1121b013783f8f3526b56d037e05f2598bd0fd2215d6a1e5295e64f73f63f0aec8b915a985d786598"
  let ikm := rep 22 0x0b
  let salt := hx "000102030405060708090a0b0c"
  let info := hx "f0f1f2f3f4f5f6f7f8f9"
  t.eqHex "hkdf256/rfc5869-1-prk" (hkdfExtract256 salt ikm) "077709362c2e32df0ddc3f0dc47bba6390b6c73bb50f9c3122ec844ad7c2b3e5"
  t.eqHex "hkdf256/rfc5869-1-okm" (hkdf256 salt ikm info 42)
    "3cb25f25faacd57a90434f64d0362f2a2d2d0a90cf1a5a4c5db02d56ecc4c5bf34007208d5b887185865"
  t.eqHex "hkdf256/rfc5869-3-prk" (hkdfExtract256 .empty ikm) "19ef24a32c717b167f33a91d6f648bdf96596776afdb6377ac434c1c293ccb04"
  t.eqHex "hkdf256/rfc5869-3-okm" (hkdf256 .empty ikm .empty 42)
    "8da4e775a563c18f715f802a063c5a31b8a11f5c5ee1879ec3454e5f3c738d2d9d201395faa4b61a96c8"
  t.check "hkdf/list-wrapper" (hkdf256L (toList salt) (toList ikm) (toList info) 42 == toList (hkdf256 salt ikm info 42)
    && hkdf512L (toList salt) (toList ikm) (toList info) 42 == toList (hkdf512 salt ikm info 42))

def testX25519 (t : T) : IO Unit := do
  t.eqHex "x25519/rfc7748-5.2-1"
    (x25519 (hx "a546e36bf0527c9d3b16154b82465edd62144c0ac1fc5a18506a2244ba449ac4")
      (hx "e6db6867583030db3594c1a424b15f7c726624ec26b3353b10a903a6d0ab1c4c"))
    "c3da55379de9c6908e94ea4df28d084f32eccf03491c71f754b4075577a28552"
  t.eqHex "x25519/rfc7748-5.2-2"
    (x25519 (hx "4b66e9d4d1b4673c5ad22691957d6af5c11b6421e0ea01d42ca4169e7918ba0d")
      (hx "e5210f12786811d3f4b7959d0538ae2c31dbe7106fc03c3efc4cd549c715a493"))
    "95cbde9476e8907d7aade45cb4b873f88b595a68799fa152e6f8f7647aac7957"
  -- iterated vector: k, u := X25519(k, u), k
  let mut k := x25519BasePoint
  let mut u := x25519BasePoint
  for i in [0:1000] do
    let r := x25519 k u
    u := k
    k := r
    if i == 0 then t.eqHex "x25519/rfc7748-iter-1" k "422c8e7a6227d7bca1350b3e2bb7279f7897b87bb6854b783c60e80311ae3079"
  t.eqHex "x25519/rfc7748-iter-1000" k "684cf59ba83309552800ef566f2f4d3c1c3887c49360e3875f2eb94d99532c51"
  let a := hx "77076d0a7318a57d3c16c17251b26645df4c2f87ebc0992ab177fba51db92c2a"
  let b := hx "5dab087e624a8a4b79e17f8b83800ee66f3bb1292618b6fd1c2f8b27ff88e0eb"
  t.eqHex "x25519/rfc7748-6.1-alice-pub" (x25519Base a) "8520f0098930a754748b7ddcb43ef75a0dbf3a0d26381af4eba4a98eaa9b4e6a"
  t.eqHex "x25519/rfc7748-6.1-bob-pub" (x25519Base b) "de9edb7d7b7dc1b4d35b61c2ece435373f8343c85b78674dadfc7e146f882b4f"
  t.eqHex "x25519/rfc7748-6.1-shared-a" (x25519 a (x25519Base b)) "4a5d9d5ba4ce2de1728e3bf480350f25e07e21c947d19e3376f09b3c1e161742"
  t.eqHex "x25519/rfc7748-6.1-shared-b" (x25519 b (x25519Base a)) "4a5d9d5ba4ce2de1728e3bf480350f25e07e21c947d19e3376f09b3c1e161742"
  t.eqHex "x25519/clamp" (clampScalar (rep 32 0xff)) "f8ffffffffffffffffffffffffffffffffffffffffffffffffffffffffffff7f"
  t.check "x25519/list-wrapper" (x25519L (toList a) (x25519BaseL (toList b)) == toList (x25519 a (x25519Base b))
    && clampScalarL (toList a) == toList (clampScalar a))

def testChaCha (t : T) : IO Unit := do
  let q := quarterRound #[0x11111111, 0x01020304, 0x9b8d6f43, 0x01234567] 0 1 2 3
  t.check "chacha/rfc8439-2.1.1-quarter-round" (q == #[0xea2a92f4, 0xcb1cf8ce, 0x4581472e, 0x5881c4bb])
  -- RFC 8439 §2.3.2: counter = 1, nonce = 00000009 0000004a 00000000 mapped onto the DJB layout
  t.eqHex "chacha/rfc8439-2.3.2-block"
    (chachaBlock (hx "000102030405060708090a0b0c0d0e0f101112131415161718191a1b1c1d1e1f") 0x0900000000000001 0x4a000000)
    "10f1e7e4d13b5915500fdd1fa32071c4c7d1f4c733c068030422aa9ac3d46c4ed2826446079faa0914c2d705d98b02a2b5129cd1de164eb9cbd083e8a2503c4e"
  t.eqHex "chacha/zero-key-block0" (chacha20RngBytes (zeros 32) 64)
    "76b8e0ada0f13d90405d6ae55386bd28bdd219b8a08ded1aa836efcc8b770dc7da41597c5157488d7724e03fb8d84a376a43b8f41518a11cc387b669b2ee6586"
  t.check "chacha/list-wrapper" (chacha20RngBytesL (toList (zeros 32)) 70 == toList (chacha20RngBytes (zeros 32) 70))

def seedOf (name : String) : ByteArray :=
  if name == "zero" then zeros 32 else if name == "inc" then pat 32 1 0 else pat 32 7 3

/-- Vectors produced by the real Rust crates (see /root/scratch/cryptoref/src/main.rs). -/
def testRust (t : T) : IO Unit := do
  let key := pat 32 11 5
  let nonce := pat 12 3 9
  let gk := GcmKey.new key
  let mut n := 0
  for line in rustVectors.splitOn "\n" do
    n := n + 1
    match line.splitOn " " with
    | ["chacha", name, len, out] =>
      t.eqHex s!"rust/chacha20rng-{name}-{len}" (chacha20RngBytes (seedOf name) len.toNat!) (if out == "-" then "" else out)
    | ["chacha_sha256", name, len, h] =>
      t.eqHex s!"rust/chacha20rng-{name}-{len}" (sha256 (chacha20RngBytes (seedOf name) len.toNat!)) h
    | ["chacha_split", name, lens, out] =>
      let ls := (lens.splitOn "+").map String.toNat!
      t.eqHex s!"rust/chacha20rng-split-{name}-{lens}" ((chacha20RngStream (seedOf name) ls).foldl (· ++ ·) .empty) out
    | ["chacha_stream", name, lens, h] =>
      let ls := (lens.splitOn ",").map String.toNat!
      t.eqHex s!"rust/chacha20rng-stream-{name}-{lens}" (sha256 ((chacha20RngStream (seedOf name) ls).foldl (· ++ ·) .empty)) h
    | ["hkdf512", salt, ikm, info, len, okm] =>
      t.eqHex s!"rust/hkdf512-line{n}" (hkdf512 (hx salt) (hx ikm) (hx info) len.toNat!) okm
    | ["hkdf256", salt, ikm, info, len, okm] =>
      t.eqHex s!"rust/hkdf256-line{n}" (hkdf256 (hx salt) (hx ikm) (hx info) len.toNat!) okm
    | ["ed2x", seed, sc, edPub, mont, xPub] =>
      t.eqHex s!"rust/ed25519SeedToX25519Scalar-{seed.take 8}" (ed25519SeedToX25519Scalar (hx seed)) sc
      t.eqHex s!"rust/edwardsYToMontgomeryU-{seed.take 8}" (edwardsYToMontgomeryU (hx edPub)) mont
      t.eqHex s!"rust/x25519Base-of-ed-scalar-{seed.take 8}" (x25519Base (hx sc)) xPub
      t.check s!"rust/ed-pub-maps-to-x-pub-{seed.take 8}" (mont == xPub)
    | ["edy2u", y, u] => t.eqHex s!"rust/edwardsYToMontgomeryU-{y.take 4}..{y.drop 60}" (edwardsYToMontgomeryU (hx y)) u
    | ["x25519", k, u, out] => t.eqHex s!"rust/x25519-{k.take 8}" (x25519 (hx k) (hx u)) out
    | ["x25519base", k, out] => t.eqHex s!"rust/x25519Base-{k.take 8}" (x25519Base (hx k)) out
    | ["gcm", len, aadLen, ctHash, tag] =>
      let pt := pat len.toNat! 31 7
      let aad := pat aadLen.toNat! 5 1
      let (ct, tg) := gk.encrypt nonce aad pt
      let dec := match gk.decrypt nonce aad ct tg with
        | some p => bytesEq p pt
        | none => false
      t.check s!"rust/aes256gcm-{len}-aad{aadLen}" (hexEncode (sha256 ct) == ctHash && hexEncode tg == tag && dec)
        s!"ctHash={hexEncode (sha256 ct)} tag={hexEncode tg} dec={dec}"
    | ["sha", len, h256, h512] =>
      let d := pat len.toNat! 13 1
      t.eqHex s!"rust/sha256-{len}" (sha256 d) h256
      t.eqHex s!"rust/sha512-{len}" (sha512 d) h512
    | [""] | [] => pure ()
    | _ => t.check s!"rust/unparsed-line-{n}" false line

def mbps (bytes : Nat) (ms : Nat) : String :=
  if ms == 0 then "inf" else
    let x := bytes * 1000 * 100 / (ms * 1048576)
    s!"{x / 100}.{if x % 100 < 10 then "0" else ""}{x % 100} MiB/s"

def bench (name : String) (bytes reps : Nat) (f : Nat → IO UInt8) : IO Unit := do
  let t0 ← IO.monoMsNow
  let mut acc : UInt8 := 0
  for i in [0:reps] do
    acc := acc ^^^ (← f i)
  let t1 ← IO.monoMsNow
  IO.println s!"BENCH {name}: {reps} x {bytes} bytes in {t1 - t0} ms = {mbps (bytes * reps) (t1 - t0)} (chk {acc})"

def benches : IO Unit := do
  let mib := 1048576
  let data := pat mib 31 7
  let key := pat 32 11 5
  let aad := pat 24 5 1
  bench "sha256 1MiB" mib 8 fun i => pure (byteAt (sha256 (data.set! 0 i.toUInt8)) 0)
  bench "sha512 1MiB" mib 8 fun i => pure (byteAt (sha512 (data.set! 0 i.toUInt8)) 0)
  bench "gcmEncrypt 1MiB" mib 8 fun i =>
    let (c, t) := gcmEncrypt key (pat 12 3 i.toUInt32) aad data
    pure (byteAt c 5 ^^^ byteAt t 0)
  let nonce0 := pat 12 3 0
  let (c0, t0) := gcmEncrypt key nonce0 aad data
  bench "gcmDecrypt 1MiB" mib 8 fun i =>
    pure (match gcmDecrypt key nonce0 (aad.set! 0 (byteAt aad 0 ^^^ (i / 8).toUInt8)) c0 t0 with
      | some p => byteAt p 5 | none => 255)
  bench "ctrKeystream 1MiB" mib 8 fun i => pure (byteAt (ctrKeystream key (pat 12 3 i.toUInt32) 2 mib) 7)
  bench "ghash 1MiB" mib 8 fun i => pure (byteAt (ghash (pat 16 9 i.toUInt32) aad data) 0)
  bench "chacha20RngBytes 1MiB" mib 4 fun i => pure (byteAt (chacha20RngBytes (pat 32 1 i.toUInt32) mib) 9)
  bench "x25519 (per op, 32 B)" 32 50 fun i => pure (byteAt (x25519Base (pat 32 1 i.toUInt32)) 0)
  bench "hkdf512 64B out" 64 200 fun i => pure (byteAt (hkdf512 aad (pat 32 1 i.toUInt32) aad 64) 0)

def main (args : List String) : IO UInt32 := do
  let t : T := { quiet := args.contains "-q", pass := ← IO.mkRef 0, fail := ← IO.mkRef 0 }
  testAes t
  testGcm t
  testSha t
  testHmacHkdf t
  testX25519 t
  testChaCha t
  testRust t
  let p ← t.pass.get
  let f ← t.fail.get
  IO.println s!"SUMMARY: {p} passed, {f} failed"
  unless args.contains "--no-bench" do benches
  return if f == 0 then 0 else 1

/- Line-protocol driver: one JSON request per line on stdin, one JSON answer per line on stdout. -/
import Driver.Core
import Driver.Layers
import Driver.CApi
import Driver.Keys
import Driver.Cli
import Driver.Format
import Driver.Stack
import Driver.Config
import Driver.CompTable
open Lean Driver MlaModel


def dispatch (j : Json) : Json :=
  match getStr j "cmd" with
  | "ping" => Json.mkObj [("pong", Json.bool true)]
  | "writer.run" => cmdWriterRun sha j
  | "reader.read" => cmdReaderRead j
  | "linear.run" => cmdLinearRun j
  | "blocks.decode" => cmdBlocksDecode j
  | "repair.run" => cmdRepairRun j
  | "enc.seal" => cmdEncSeal j
  | "enc.trace" => cmdEncTrace j
  | "enc.failsafe" => cmdEncFailsafe j
  | "enc.open" => cmdEncOpen j
  | "reader.history" => cmdReaderHistory j
  | "archive.read" => cmdArchiveRead j
  | "capi.run" => cmdCapiRun sha j
  | "keys.gen" => cmdKeysGen j
  | "keys.derive" => cmdKeysDerive j
  | "keys.parse" => cmdKeysParse j
  | "keys.export" => cmdKeysExport j
  | "cli.path" => cmdCliPath j
  | "cli.extract" => cmdCliExtract j
  | "cli.expect" => cmdCliExpect j
  | "gcm.split" => cmdGcmSplit j
  | "header.decode" => cmdHeaderDecode j
  | "header.encode" => cmdHeaderEncode j
  | "archive.build" => cmdArchiveBuild j
  | "archive.decode" => cmdArchiveDecode j
  | "archive.finish" => cmdArchiveFinish j
  | "format.consts" => cmdFormatConsts j
  | "stack.run" => cmdStackRun j
  | "stack.unwrap" => cmdStackUnwrap j
  | "config.run" => cmdConfigRun j
  | "stack.header" => cmdStackHeader j
  | "comp.trace" => cmdCompTrace j
  | "comp.failsafe" => cmdCompFailsafe j
  | c => Json.mkObj [("err", Json.str ("unknown-cmd:" ++ c))]

partial def loop (h : IO.FS.Stream) (out : IO.FS.Stream) : IO Unit := do
  let line ← h.getLine
  if line.isEmpty then return ()
  match Json.parse line with
  | .error e => out.putStrLn (Json.compress (Json.mkObj [("err", Json.str ("json:" ++ e))]))
  | .ok j => out.putStrLn (Json.compress (dispatch j))
  out.flush
  loop h out

def main : IO Unit := do loop (← IO.getStdin) (← IO.getStdout)

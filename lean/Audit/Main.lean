/-
  Audit tool:  lake env lean --run Audit/Main.lean <module> [<module> …]
  For every theorem declared in the given modules prints one line
     THEOREM <name> AXIOMS <comma-separated axioms>
  and one summary line
     OBLIGATIONS <n>        -- theorems of the project (MlaModel.*) the listed theorems depend on,
                            -- the listed theorems included
  The orchestrator rejects any axiom outside {propext, Classical.choice, Quot.sound}.
-/
import Lean
open Lean

instance : MonadEnv (StateM Environment) where
  getEnv := get
  modifyEnv f := modify f

def isAuto (n : Name) : Bool :=
  match n with
  | .str _ s => s.startsWith "eq_" || s.startsWith "congr_simp" || s.startsWith "match_" || s.startsWith "proof_" || s == "sizeOf_spec" || s.startsWith "injEq" || s.startsWith "inj" || s.startsWith "noConfusion"
  | _ => true

partial def depsIn (env : Environment) (isOurs : Name → Bool) (todo : List Name) (seen : NameSet) : NameSet :=
  match todo with
  | [] => seen
  | n :: rest =>
    if seen.contains n then depsIn env isOurs rest seen else
    match env.find? n with
    | none => depsIn env isOurs rest seen
    | some ci =>
      if !isOurs n then depsIn env isOurs rest seen else
      let seen := seen.insert n
      let used := ci.getUsedConstantsAsSet.toList
      depsIn env isOurs (used ++ rest) seen

def main (args : List String) : IO UInt32 := do
  initSearchPath (← findSysroot)
  let mods := args.map String.toName
  let env ← importModules (mods.toArray.map fun m => { module := m }) {}
  let mut roots : List Name := []
  for m in mods do
    let some idx := env.getModuleIdx? m | do IO.eprintln s!"module not found: {m}"; return 1
    for (n, ci) in env.constants.map₁.toList do
      if env.getModuleIdxFor? n == some idx then
        match ci with
        | .thmInfo _ =>
          if !n.isInternal && !isAuto n then
            let (axs, _) := (collectAxioms n : StateM Environment _).run env
            let axs := axs.toList.map toString
            IO.println s!"THEOREM {n} AXIOMS {String.intercalate "," axs}"
            roots := n :: roots
        | _ => pure ()
  let isOurs (n : Name) : Bool :=
    match env.getModuleIdxFor? n with
    | some i => (`MlaModel).isPrefixOf (env.header.moduleNames[i.toNat]!)
    | none => false
  let all := depsIn env isOurs roots {}
  let thms := all.toList.filter fun n => match env.find? n with | some (.thmInfo _) => !n.isInternal && !isAuto n | _ => false
  IO.println s!"OBLIGATIONS {thms.length}"
  return 0

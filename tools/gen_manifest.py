#!/usr/bin/env python3
"""Regenerate MANIFEST.json from tools/props.py (claimed properties) and the pending list."""
import json, os, subprocess, sys
ROOT = os.path.dirname(os.path.dirname(os.path.abspath(__file__)))
sys.path.insert(0, os.path.join(ROOT, "tools"))
from props import PROPS
ALL = [f"C{n:02d}" for n in range(1, 21)]
hook_commits = subprocess.run(["git", "-C", "/repo", "log", "--format=%H", "--grep=verif hook"], capture_output=True, text=True).stdout.split()
checks = []
for pid in ALL:
    if pid not in PROPS or PROPS[pid].get("pending"):
        continue
    p = PROPS[pid]
    checks.append({
        "property_id": pid,
        "quick_cmd": f"./check {pid} quick",
        "thorough_cmd": f"./check {pid} thorough",
        "evidence_file": f"/verif/evidence/{pid}.json",
        "replay_cmd_template": f"./check {pid} --replay {{path}}",
        "engine": "lean4-model+rust-correspondence",
        "level_claimed": {
            "category": "proof",
            "text": p.get("level_text", "Property stated as theorems over a hand-written executable Lean 4 model and proved for all inputs (lake build + axiom audit on every run); the model is tied to /repo's working tree by a correspondence harness that runs the model's executable definitions and the real code on the same cases and evaluates the property's oracle on the implementation. Strength: " + p.get("strength", "")),
            "design_ref": "DESIGN.md §7 " + pid,
        },
        "level_note": p.get("level_note", "Trusted: Lean kernel + {propext, Classical.choice, Quot.sound}; the model as a reading of the Rust code, validated only on the cases the harness runs (bounded); primitives (AES-GCM, SHA-2, HKDF, X25519, brotli, std::io) are parameters of the model with stated contracts."),
        "technique": p.get("technique", "Lean 4 theorems over an executable model + differential correspondence with the Rust code"),
    })
na = []
for pid in ALL:
    if pid not in PROPS or PROPS[pid].get("pending"):
        na.append({"property_id": pid, "reason": (PROPS.get(pid, {}).get("pending") or "check not built yet (work in progress, see DESIGN.md §11); nothing is claimed for it")})
m = {
    "version": 1,
    "setup_cmd": "./setup.sh",
    "hooks": {
        "guard": "cfg(mla_verif)",
        "enable": "RUSTFLAGS='--cfg mla_verif' with MLA_VERIF_CHUNK/CBUF/BLOCK/FSBUF/RCACHE set at build time (scales the layer size constants; see mla/src/verif_hook.rs)",
        "baseline_off_cmd": "cd /repo && cargo test --workspace --no-fail-fast --offline",
        "source_commits": hook_commits,
        "add_only": True,
    },
    "engines": [{
        "name": "lean4-model+rust-correspondence", "path": "/verif/check",
        "serves_properties": [c["property_id"] for c in checks],
        "kind_free_text": "Lean 4 model and theorems (/verif/lean), JSON-lines model driver (lean_exe), Rust harness (/verif/harness) built against /repo's working tree, python orchestrator",
    }],
    "checks": checks,
    "not_applicable": na,
    "notes": "See DESIGN.md. known_findings.json lists recorded genuine defects (known) and repaired ones (fixed).",
}
json.dump(m, open(os.path.join(ROOT, "MANIFEST.json"), "w"), indent=1)
print("claimed:", [c["property_id"] for c in checks])

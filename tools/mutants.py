#!/usr/bin/env python3
"""Mutation campaign used to measure what the checks detect (not a registered check).

usage: tools/mutants.py gen <n> <seed>        -> prints a list of mutants (jsonl) to stdout
       tools/mutants.py gen-del <n> <seed>    -> statement-deletion mutants (an assignment or a state-changing call removed)
       tools/mutants.py run <slot> <file.jsonl> -> runs every mutant of the list whose index % NSLOTS == slot

Each mutant is one token replacement on one line of non-test library code.  For each one, in a scratch
worktree of /repo (never /repo itself): build; run `cargo test -p mla` (the suite a developer runs); when
the suite still passes, run the library-level quick checks against that tree (VERIF_REPO) until one reports
a violation.  Results are appended to seeded/mutants/results.jsonl.
"""
import json, os, random, re, subprocess, sys, hashlib
ROOT = os.path.dirname(os.path.dirname(os.path.abspath(__file__)))
FILES = {"mla/src/lib.rs": 1591, "mla/src/layers/encrypt.rs": 704, "mla/src/layers/compress.rs": 1076,
         "mla/src/layers/raw.rs": 156, "mla/src/helpers.rs": 105, "mla/src/layers/position.rs": 62,
         "mla/src/crypto/aesgcm.rs": 178, "mla/src/crypto/ecc.rs": 108}
OPS = [(r" < ", " <= "), (r" <= ", " < "), (r" > ", " >= "), (r" >= ", " > "), (r" == ", " != "), (r" != ", " == "),
       (r" \+ 1\b", ""), (r" - 1\b", ""), (r" \+ ", " - "), (r" - ", " + "), (r"\bmin\(", "max("),
       (r" \+= ", " -= "), (r"\btrue\b", "false"), (r"\bfalse\b", "true"), (r" && ", " || "), (r" \|\| ", " && "),
       (r"saturating_sub", "wrapping_sub"), (r"\bread_exact\(", "read("), (r"\bwrite_all\(", "write("),
       (r"\? as usize", "? as usize + 1"), (r"\.take\(", ".skip("), (r" / ", " % "), (r" % ", " / ")]
CHECKS = ["C11", "C10", "C01", "C02", "C05", "C03", "C04", "C09", "C12", "C13", "C14", "C06", "C08"]
# second profile (MUT_PROFILE=tools): the command line tool, the key parser, the C bindings
if os.environ.get("MUT_PROFILE") == "tools":
    FILES = {"mlar/src/main.rs": 1288, "curve25519-parser/src/lib.rs": 337, "bindings/C/src/lib.rs": 713}
    CHECKS = ["C18", "C19", "C16", "C17", "C20"]
SUITE = ["cargo", "test", "--offline", "-p", "mla"] if os.environ.get("MUT_PROFILE") != "tools" else ["cargo", "test", "--offline", "-p", "mlar", "-p", "curve25519-parser", "-p", "mla-bindings-c"]
BUILD = ["cargo", "build", "--offline", "-p", "mla"] if os.environ.get("MUT_PROFILE") != "tools" else ["cargo", "build", "--offline", "-p", "mlar", "-p", "curve25519-parser", "-p", "mla-bindings-c"]
NSLOTS = int(os.environ.get("MUT_SLOTS", "3"))


DEL = re.compile(r"^\s*(?:(?:self\.)?[a-z_][\w.]*(?:\[[^\]]*\])?\s*(?:\+|-|\|)?=\s*[^;{}]+;|[a-z_][\w.]*\.(?:clear|truncate|flush|seek|rewind|set_position|push|insert|remove|extend_from_slice|copy_from_slice|update|zeroize|resize|drain|pop)\([^;{}]*\)\??;)\s*$")


def gen_del(n, seed):
    """statement-deletion mutants: one assignment or state-changing call removed"""
    rnd = random.Random(seed)
    cands = []
    for f, last in FILES.items():
        lines = open(os.path.join("/repo", f)).read().split("\n")
        for i, l in enumerate(lines[:last], 1):
            if l.strip().startswith("let ") or "debug_assert" in l or not DEL.match(l):
                continue
            cands.append({"file": f, "line": i, "col": 0, "op": 100, "from": l, "to": "", "text": l.strip()[:120]})
    rnd.shuffle(cands)
    for c in cands[:n]: print(json.dumps(c))


def gen(n, seed):
    rnd = random.Random(seed)
    cands = []
    for f, last in FILES.items():
        lines = open(os.path.join("/repo", f)).read().split("\n")
        for i, l in enumerate(lines[:last], 1):
            st = l.strip()
            if st.startswith("//") or st.startswith("#[") or "const " in l or st.startswith("use ") or "debug_assert" in l:
                continue
            # type-level syntax (trait bounds, lifetimes, generics, signatures): mutants there do not compile
            if any(t in l for t in ("dyn ", "impl<", "impl ", "where ", "'a +", "-> ", "fn ", "struct ", "enum ", "type ", "trait ", "Box<", ": R", ": W", "<'", "format!", "\"")):
                continue
            code = l.split("//")[0]
            for k, (pat, rep) in enumerate(OPS):
                for m in re.finditer(pat, code):
                    cands.append({"file": f, "line": i, "col": m.start(), "op": k, "from": m.group(0), "to": rep, "text": st[:120]})
    rnd.shuffle(cands)
    seen = set(); out = []
    for c in cands:
        if (c["file"], c["line"]) in seen: continue
        seen.add((c["file"], c["line"])); out.append(c)
        if len(out) >= n: break
    for c in out: print(json.dumps(c))


def sh(cmd, cwd=None, env=None, timeout=3600):
    e = dict(os.environ); e.update(env or {})
    try:
        p = subprocess.run(cmd, cwd=cwd, env=e, stdout=subprocess.PIPE, stderr=subprocess.STDOUT, timeout=timeout)
        return p.returncode, p.stdout.decode(errors="replace")
    except subprocess.TimeoutExpired:
        return 124, "timeout"


def run(slot, listfile):
    wt = f"/tmp/mut-wt-{slot}"; td = f"/tmp/mut-target-{slot}"
    sh(["git", "-C", "/repo", "worktree", "remove", "--force", wt])
    sh(["git", "-C", "/repo", "worktree", "add", "--detach", wt, "HEAD"])
    os.makedirs(os.path.join(ROOT, "seeded", "mutants"), exist_ok=True)
    res = os.path.join(ROOT, "seeded", "mutants", "results.jsonl")
    done = set()
    if os.path.exists(res):
        for l in open(res):
            try: r = json.loads(l); done.add((r["file"], r["line"], r["col"], r["op"]))
            except Exception: pass
    muts = [json.loads(l) for l in open(listfile) if l.strip()]
    for idx, m in enumerate(muts):
        if idx % NSLOTS != slot or (m["file"], m["line"], m["col"], m["op"]) in done: continue
        sh(["git", "checkout", "--", "."], cwd=wt)
        p = os.path.join(wt, m["file"]); lines = open(p).read().split("\n")
        l = lines[m["line"] - 1]
        if l[m["col"]:m["col"] + len(m["from"])] != m["from"]:
            continue
        lines[m["line"] - 1] = l[:m["col"]] + m["to"] + l[m["col"] + len(m["from"]):]
        open(p, "w").write("\n".join(lines))
        m["mutated"] = lines[m["line"] - 1].strip()[:140]
        env = {"CARGO_TARGET_DIR": td, "CARGO_NET_OFFLINE": "true"}
        rc, out = sh(BUILD, cwd=wt, env=env)
        if rc != 0:
            m["verdict"] = "does-not-compile"
        else:
            rc, out = sh(SUITE, cwd=wt, env=env, timeout=1500)
            if rc != 0:
                m["verdict"] = "killed-by-suite"
                m["suite"] = re.findall(r"^test (\S+) \.\.\. FAILED", out, flags=re.M)[:4] or ["timeout" if rc == 124 else "build/other"]
            else:
                m["verdict"] = "survived-all"; m["ran"] = []
                for c in CHECKS:
                    rc, out = sh([os.path.join(ROOT, "check"), c, "quick"], env={"VERIF_REPO": wt}, timeout=3000)
                    m["ran"].append(c)
                    if rc != 0:
                        v = [x for x in out.split("\n") if x.startswith("VIOLATION") or "violation:" in x or "broken:" in x]
                        m["verdict"] = "caught"; m["by"] = c; m["how"] = [x[:200] for x in v[:3]]
                        break
        with open(res, "a") as f: f.write(json.dumps(m) + "\n")
        print(idx, m["file"], m["line"], m["verdict"], m.get("by", ""), flush=True)
    sh(["git", "-C", "/repo", "worktree", "remove", "--force", wt])
    tag = "-alt" + hashlib.sha256(wt.encode()).hexdigest()[:8]
    sh(["sh", "-c", f"rm -rf {ROOT}/.build/*{tag} {td}"])


if __name__ == "__main__":
    if sys.argv[1] == "gen": gen(int(sys.argv[2]), int(sys.argv[3]))
    elif sys.argv[1] == "gen-del": gen_del(int(sys.argv[2]), int(sys.argv[3]))
    else: run(int(sys.argv[2]), sys.argv[3])

"""Per-property configuration of the orchestrator (theorem modules, harness builds, rules)."""

TRUSTED_COMMON = [
    "Lean 4.33 kernel; axioms limited to propext, Classical.choice, Quot.sound (audited per theorem on every run)",
    "the hand-written Lean model as a reading of the Rust source, tied to /repo by the correspondence harness (generators, canonicalisation, oracles) on every run",
    "Rust reference crates used only as differential partners: aes-gcm, hkdf, sha2, x25519-dalek, brotli",
]

SCALED = ["prod", "s40", "s64"]
SCALED_T = ["prod", "s40", "s64", "s17"]

PROPS = {
    "C01": {
        "theorems": ["MlaModel.Theorems.C01"],
        "required": [],
        "configs": SCALED, "configs_thorough": SCALED_T,
        "rule": "corpus (one case per repaired defect) + exhaustive alignment sweeps at scaled constants + random valid op sequences from a boundary-biased generator; a case is non-trivial when it has >= 2 files, interleaved appends, or crosses a chunk/block boundary; distinct = distinct hash of the canonical case",
        "strength": "full over the model (compression modulo Codec laws)",
        "assumptions": ["SHA-256, AES-GCM, X25519, HKDF, brotli are parameters of the model (Prims/Codec), validated against reference crates"],
    },
    "C09": {
        "theorems": ["MlaModel.Theorems.C09"],
        "required": ["MlaModel.C09.refused_noop", "MlaModel.C09.erase", "MlaModel.C09.short_source"],
        "configs": ["prod"],
        "rule": "all call sequences up to length 3 (quick) / 4 sampled 1:4 (thorough) over a 25-symbol alphabet {start(fresh|dup|empty|65536|65537), append(open|ended|never x exact|short|long|0), end(open|ended|never), add(fresh|dup|short), flush, finalize} + sampled sequences of length 5..40; non-trivial = contains a refused or failing call",
        "strength": "full",
    },
}

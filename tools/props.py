"""Per-property configuration of the orchestrator (theorem modules, harness builds, rules)."""

TRUSTED_COMMON = [
    "Lean 4.33 kernel; axioms limited to propext, Classical.choice, Quot.sound (audited per theorem on every run)",
    "the hand-written Lean model as a reading of the Rust source, tied to /repo by the correspondence harness (generators, canonicalisation, oracles) on every run",
    "Rust reference crates used only as differential partners: aes-gcm, hkdf, sha2, x25519-dalek, brotli",
]

SCALED = ["prod", "s40", "s64"]
SCALED_T = ["prod", "s40", "s64", "s17"]

PROPS = {
    "C01": {
        "theorems": ["MlaModel.Theorems.C01", "MlaModel.Theorems.C01Compress", "MlaModel.Theorems.C11Encrypt"],
        "required": ["MlaModel.C01.blocks", "MlaModel.C01.archive", "MlaModel.C01.roundtrip", "MlaModel.C01.compress_wellformed", "MlaModel.C11.open_seal"],
        "configs": SCALED, "configs_thorough": SCALED_T,
        "rule": "corpus (one case per repaired defect) + exhaustive alignment sweeps at scaled constants + random valid op sequences from a boundary-biased generator; a case is non-trivial when it has >= 2 files, interleaved appends, or crosses a chunk/block boundary; distinct = distinct hash of the canonical case",
        "strength": "full over the model (compression modulo Codec.Laws; Codec.stored proved to satisfy them)",
        "assumptions": ["SHA-256, AES-GCM, X25519, HKDF, brotli are parameters of the model (Prims/Codec), validated against reference crates"],
    },
    "C02": {
        "theorems": ["MlaModel.Theorems.C02", "MlaModel.Theorems.EncryptFailSafe", "MlaModel.Theorems.CompressFailSafe"],
        "required": ["MlaModel.C02.accepted", "MlaModel.C02.readable", "MlaModel.C02.sound", "MlaModel.C02.eoad_complete", "MlaModel.EncFS.unauth_prefix_safe", "MlaModel.EncFS.auth_prefix_safe", "MlaModel.CompFS.L2_prefix_safe"],
        "configs": SCALED, "configs_thorough": SCALED_T,
        "rule": "every truncation length of every generated archive at scaled constants (4 layer combinations, both modes), windows around every structural boundary at production constants; non-trivial = the cut lies after the header and before the end; distinct = (archive, cut, mode)",
        "strength": "full: repair loop sound for every delivered prefix (C02.sound/accepted/readable/eoad_complete) + layer prefix-safety (L2) for encryption and compression (modulo Codec.Laws)",
    },
    "C03": {
        "theorems": ["MlaModel.Theorems.C11Encrypt"],
        "required": ["MlaModel.C11.EncRd.isCursor"],
        "configs": ["prod", "s40"], "configs_thorough": SCALED_T,
        "rule": "every single-bit flip of every byte after the magic (scaled; one bit per byte quick, all bits thorough), windowed + sampled flips at production constants, chunk swap/duplicate/delete/splice/drop-tail, header-field edits, three read orders; non-trivial = the edit changes the archive",
        "strength": "finding D14 (whole-chunk truncation with a planted footer); layer-level statement under INT-CTXT in progress",
    },
    "C04": {
        "theorems": ["MlaModel.Theorems.EncryptFailSafe"],
        "required": ["MlaModel.EncFS.auth_prefix_unauth", "MlaModel.EncFS.read_empty_sticky"],
        "configs": ["prod", "s40"], "configs_thorough": SCALED_T,
        "rule": "a bit flip in every byte after the header (1 in 3 quick, all thorough) and a truncation inside every chunk, of generated and adversarially aligned encrypted archives; both modes; non-trivial = all",
        "strength": "finding D15 (chunk 0 never authenticated); authenticated ⊑ unauthenticated proved for all inputs",
    },
    "C05": {
        "theorems": ["MlaModel.Theorems.C05", "MlaModel.Theorems.EncryptFailSafe", "MlaModel.Theorems.CompressFailSafe"],
        "required": ["MlaModel.C05.complete", "MlaModel.C05.mono", "MlaModel.C05.exact", "MlaModel.EncFS.unauth_complete", "MlaModel.EncFS.unauth_mono", "MlaModel.CompFS.L3_complete", "MlaModel.CompFS.L4_mono"],
        "configs": SCALED, "configs_thorough": SCALED_T,
        "rule": "as C02, plus completeness at the full length and monotonicity along the whole chain of cuts",
        "strength": "full: C05.complete/mono/exact over the repair loop + layer completeness/monotonicity (L3, L4); authenticated-mode monotonicity under the NoForge hypothesis",
    },
    "C09": {
        "theorems": ["MlaModel.Theorems.C09", "MlaModel.Theorems.C01"],
        "required": ["MlaModel.C09.refused_noop", "MlaModel.C09.erase", "MlaModel.C09.short_source", "MlaModel.C01.roundtrip"],
        "configs": ["prod"],
        "rule": "all call sequences up to length 3 (quick) / 4 sampled 1:4 (thorough) over a 25-symbol alphabet {start(fresh|dup|empty|65536|65537), append(open|ended|never x exact|short|long|0), end(open|ended|never), add(fresh|dup|short), flush, finalize} + sampled sequences of length 5..40; non-trivial = contains a refused or failing call",
        "strength": "full",
    },
    "C10": {
        "theorems": ["MlaModel.Theorems.C10"],
        "required": ["MlaModel.C10.history", "MlaModel.C10.same_as_alone", "MlaModel.C10.hash_same_as_alone"],
        "configs": ["prod", "s40"], "configs_thorough": SCALED_T,
        "rule": "generated archives (interleaved files over several chunks and blocks) x generated histories of list/open/read(buffer sizes 0,1,2,3,5,7,chunk,block,>file)/abandon/hash/size; non-trivial = history longer than 3 ops",
        "strength": "full: for every history over ANY cursor-like layer stack every answer is the specification's (C10.history), hence the same as reading the file alone (C10.same_as_alone)",
    },
    "C11": {
        "theorems": ["MlaModel.Theorems.C11Encrypt", "MlaModel.Theorems.C11Compress", "MlaModel.Theorems.CodecStored"],
        "required": ["MlaModel.C11.EncRd.isCursor", "MlaModel.C11.CompRd.isCursor"],
        "configs": SCALED, "configs_thorough": SCALED_T,
        "rule": "every plaintext length 0..3*chunk+20 / 0..3*block+5 at scaled constants x a generated 12-op seek/read history with targets in [0,len], random longer histories; boundary residues at production constants; non-trivial = length at a chunk/block boundary residue, below one tag, above one chunk/block, or a non-zero start offset",
        "strength": "full: raw (any offset), encryption and compression readers proved cursor-like over ANY cursor-like inner stream, hence every stacking",
    },
    "C12": {
        "theorems": ["MlaModel.Theorems.C12"],
        "required": ["MlaModel.C12.eq", "MlaModel.C12.trunc"],
        "configs": ["prod", "s40"],
        "rule": "generated archives x subsets {none, all, each of two singles, random, a foreign name} with sinks accepting writes in random pieces; block streams cut before the end marker with the footer kept (no layers); non-trivial = non-empty choice over >= 2 files, or a truncated stream",
        "strength": "full",
    },
    "C13": {
        "theorems": ["MlaModel.Theorems.EncryptFailSafe"],
        "required": ["MlaModel.EncFS.deliver_schedule_independent"],
        "configs": ["prod"],
        "rule": "generated archives x 5 transfer schedules (all, 1 byte, random, one-then-all, random with Interrupted) for destination, source of the normal reader and source of repair (intact + one cut, both modes); non-trivial = schedule other than 'all'",
        "strength": "schedule independence of the fail-safe decryptor proved; IoSched model in progress",
    },
    "C14": {
        "theorems": ["MlaModel.Theorems.C01Compress", "MlaModel.Theorems.EncryptFailSafe", "MlaModel.Theorems.CompressFailSafe"],
        "required": ["MlaModel.C14.compress_flush_decodable", "MlaModel.EncFS.online_unauth", "MlaModel.EncFS.online_auth", "MlaModel.CompFS.L5_flush"],
        "configs": ["prod"],
        "rule": "op sequences with flushes at random points x 4 layer combinations x levels x entropy classes incl. 200 000 equal bytes; at every flush the destination prefix is repaired (both modes when encrypted); non-trivial = something was appended before the flush",
        "strength": "per-layer flush laws (L5) proved; composition with the repair loop in progress",
    },
}

#!/usr/bin/env python3
"""Rewrite the 'Theorems per property' table of DESIGN.md §0 from tools/props.py."""
import os, re, sys
sys.path.insert(0, os.path.dirname(os.path.abspath(__file__)))
from props import PROPS
root = os.path.dirname(os.path.dirname(os.path.abspath(__file__)))
p = os.path.join(root, "DESIGN.md")
s = open(p).read()
rows = ["| id | theorem modules | required theorems (audited on every run) | harness builds (quick) |", "|---|---|---|---|"]
for pid in sorted(PROPS):
    v = PROPS[pid]
    mods = ", ".join(m.replace("MlaModel.Theorems.", "") for m in v.get("theorems", []))
    req = ", ".join(r.replace("MlaModel.", "") for r in v.get("required", []))
    cfgs = v.get("configs", ["prod"])
    if isinstance(cfgs, dict): cfgs = cfgs.get("quick", ["prod"])
    rows.append(f"| {pid} | {mods} | {req} | {', '.join(cfgs)} |")
new = re.sub(r"\| id \| theorem modules \|.*?\n(?=\n)", "\n".join(rows) + "\n", s, count=1, flags=re.S)
rows7 = ["| id | strength of the proved statement (as built) | correspondence: harness builds quick / thorough |", "|---|---|---|"]
for pid in sorted(PROPS):
    v = PROPS[pid]
    cfgs = v.get("configs", ["prod"])
    q = cfgs.get("quick", ["prod"]) if isinstance(cfgs, dict) else cfgs
    t = cfgs.get("thorough", q) if isinstance(cfgs, dict) else cfgs
    rows7.append(f"| {pid} | {v.get('strength','').replace('|','/')} | {', '.join(q)} / {', '.join(t)} |")
new = re.sub(r"\| id \| (main theorems|strength of the proved statement).*?\n(?=\n)", "\n".join(rows7) + "\n", new, count=1, flags=re.S)
if new != s:
    open(p, "w").write(new); print("DESIGN.md table updated")
else:
    print("DESIGN.md table unchanged")

#!/bin/sh
# usage: tools/confirm_seed.sh <name> <patch.diff> <demo file (rs for mla/tests — DEMO_CRATE=mlar for mlar/tests —, or sh)>
# Confirms in a scratch worktree: demo passes without the patch, fails with it, existing suite passes with it.
# Writes /verif/seeded/<name>/{patch.diff,demo,confirm.log}; prints a one-line verdict.
NAME="$1"; PATCH="$2"; DEMO="$3"
D=/verif/seeded/$NAME; [ -e "$D/meta.json" ] && { echo "$NAME: a seed of that name is already recorded (choose a new name)"; exit 2; }; mkdir -p "$D"
cp "$PATCH" "$D/patch.diff"; cp "$DEMO" "$D/$(basename "$DEMO")"; for x in "$(dirname "$DEMO")"/seed_demo*.c; do [ -f "$x" ] && cp "$x" "$D/"; done
WT=/tmp/confirm-wt-$NAME; TD=${CONFIRM_TARGET:-/tmp/confirm-target}
git -C /repo worktree remove --force "$WT" >/dev/null 2>&1
git -C /repo worktree add --detach "$WT" HEAD >/dev/null 2>&1 || { echo "$NAME: cannot create worktree"; exit 2; }
LOG="$D/confirm.log"; : > "$LOG"
run_demo() {
  case "$DEMO" in
    *.rs) CR=${DEMO_CRATE:-mla}; cp "$DEMO" "$WT/$CR/tests/seed_demo_x.rs"; (cd "$WT" && CARGO_TARGET_DIR="$TD" cargo test --offline -p $CR --test seed_demo_x >>"$LOG" 2>&1); rc=$?; rm -f "$WT/$CR/tests/seed_demo_x.rs"; return $rc;;
    *.sh) (cd "$WT" && CARGO_TARGET_DIR="$TD" cargo build --offline -p mlar >>"$LOG" 2>&1 && WT="$WT" TD="$TD" MLAR="$TD/debug/mlar" sh "$DEMO" >>"$LOG" 2>&1); return $?;;
  esac
}
echo "== demo on unchanged code" >>"$LOG"; run_demo; A=$?
if ! git -C "$WT" apply "$PATCH" 2>>"$LOG" && ! git -C "$WT" apply -3 "$PATCH" 2>>"$LOG"; then echo "$NAME: PATCH DOES NOT APPLY"; git -C /repo worktree remove --force "$WT"; exit 1; fi
echo "== demo with the change" >>"$LOG"; run_demo; B=$?
echo "== existing suite with the change" >>"$LOG"
(cd "$WT" && CARGO_TARGET_DIR="$TD" cargo test --offline --workspace --no-fail-fast 2>&1 | grep -E "^test .*FAILED|^test result|error(\[|:)" >>"$LOG")
FAILS=$(sed -n '/== existing suite with the change/,$p' "$LOG" | grep -E '^test [^ ]+ \.\.\. FAILED' | grep -v test_repair_auth_unauth | wc -l)
BUILD_ERR=$(grep -cE '^error(\[|: could not compile)' "$LOG")
git -C /repo worktree remove --force "$WT"
V="demo_unchanged_rc=$A demo_changed_rc=$B suite_failures=$FAILS build_errors=$BUILD_ERR"
echo "$V" >> "$LOG"
if [ $A -eq 0 ] && [ $B -ne 0 ] && [ $FAILS -eq 0 ] && [ $BUILD_ERR -eq 0 ]; then echo "$NAME: CONFIRMED ($V)"; else echo "$NAME: NOT CONFIRMED ($V)"; fi

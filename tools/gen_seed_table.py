#!/usr/bin/env python3
"""Rewrite the table of DESIGN.md §12 from seeded/*/meta.json."""
import json, os, re, glob
root = os.path.dirname(os.path.dirname(os.path.abspath(__file__)))
rows = ["| seed | property | change | needs | caught by (quick tier) | what had to be strengthened |", "|---|---|---|---|---|---|"]
metas = [json.load(open(p)) for p in sorted(glob.glob(os.path.join(root, "seeded", "C*", "meta.json")))]
for m in metas:
    esc = lambda x: str(x).replace("|", "/")
    rows.append(f"| {m['id']} | {m['property']} | {esc(m['change'])} | {esc(m['needs_to_manifest'])} | {', '.join(m['caught_by'])} | {esc(' '.join(m.get('notes', [])))} |")
p = os.path.join(root, "DESIGN.md")
s = open(p).read()
new = re.sub(r"\| seed \| property \| change \|.*?\n(?=\n)", "\n".join(rows) + "\n", s, count=1, flags=re.S)
open(p, "w").write(new)
print(len(metas), "seeds;", sum(1 for m in metas if m.get("notes")), "needed strengthening")

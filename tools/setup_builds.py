#!/usr/bin/env python3
"""Pre-build every harness configuration (and auxiliary binaries) in parallel."""
import os, subprocess, sys, concurrent.futures
ROOT = os.path.dirname(os.path.dirname(os.path.abspath(__file__)))
sys.path.insert(0, ROOT)
sys.path.insert(0, os.path.join(ROOT, "tools"))
import importlib.machinery, importlib.util
loader = importlib.machinery.SourceFileLoader("check", os.path.join(ROOT, "check"))
spec = importlib.util.spec_from_loader("check", loader)
check = importlib.util.module_from_spec(spec)
loader.exec_module(check)
from props import PROPS

def main():
    check.run([sys.executable, os.path.join(ROOT, "tools", "extract_consts.py")])
    mods = sorted({m for p in PROPS.values() for m in p["theorems"]})
    rc, out = check.run(["lake", "build", "MlaModel", "Driver", "driver", "cryptotest", "MlaModel.Theorems.All"] + mods, cwd=check.LEAN)
    print(out[-2000:])
    if rc != 0:
        sys.exit(1)
    cfgs = sorted({c for p in PROPS.values() for c in p.get("configs_thorough", p["configs"])})
    ok = True
    with concurrent.futures.ThreadPoolExecutor(max_workers=4) as ex:
        for cfg, (rc, out, _) in zip(cfgs, ex.map(check.harness_build, cfgs)):
            print(f"harness[{cfg}] rc={rc}")
            if rc != 0:
                print(out[-3000:])
                ok = False
    sys.exit(0 if ok else 1)

main()

#!/bin/sh
# usage: tools/seedrun.sh <patch.diff> <Cxx> [<Cyy> …]
# Applies a seeded change in a scratch worktree of /repo (never in /repo itself), runs the given
# checks (quick tier) against that tree, prints their VIOLATION lines and exit codes, removes the worktree.
set -u
ROOT=$(cd "$(dirname "$0")/.." && pwd)
PATCH="$1"; shift
WT=/tmp/seedrun-$$
git -C /repo worktree add --detach "$WT" HEAD >/dev/null 2>&1 || exit 2
if ! git -C "$WT" apply "$PATCH" 2>/dev/null && ! git -C "$WT" apply -3 "$PATCH"; then echo "patch does not apply"; git -C /repo worktree remove --force "$WT"; exit 2; fi
for P in "$@"; do
  VERIF_REPO="$WT" "$ROOT/check" "$P" quick > /tmp/seedrun-$$-$P.out 2>&1
  echo "== $P rc=$? $(grep -c '^VIOLATION' /tmp/seedrun-$$-$P.out) violation line(s)"
  grep -E "violation:|broken:" /tmp/seedrun-$$-$P.out | head -5
  grep -E "^VIOLATION" /tmp/seedrun-$$-$P.out | head -3
  rm -f /tmp/seedrun-$$-$P.out
done
git -C /repo worktree remove --force "$WT"
TAG=$(printf %s "$WT" | sha256sum | cut -c1-8)
rm -rf "$ROOT"/.build/*-alt$TAG

#!/bin/sh
# Build the framework from files on disk only (offline): Lean model + theorems + driver,
# and the Rust harness in every configuration against /repo's working tree.
set -e
cd "$(dirname "$0")"
export CARGO_NET_OFFLINE=true
exec python3 tools/setup_builds.py
